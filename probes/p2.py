import sys; sys.path.insert(0,'/tmp/probe')
import sx, z3, time
sx.install()
from sx import S, symarr, Ctx
import flowdyn.mesh as mesh, flowdyn.modeldisc as md, flowdyn.xnum as xn, flowdyn.field as fd
import flowdyn.modelphy.euler as eu, flowdyn.modelphy.shallowwater as sw
n=4
for name,model,neq,flux in [('euler-hllc',eu.euler1d(),3,'hllc'),('euler-hlle',eu.euler1d(),3,'hlle'),('sw-hll',sw.shallowwater1d(),2,'hll')]:
  for num in [xn.extrapol1(), xn.extrapol3(), xn.muscl(xn.vanalbada), xn.muscl(xn.minmod)]:
    Ctx.cur=Ctx()
    me=mesh.unimesh(ncell=n,length=1.)
    xf=symarr('xf',(n+1,)); me.xf=xf; me.xc=me.calc_centers(); me.length=xf[n]-xf[0]
    t0=time.time()
    rhs=md.fvm(model,me,num,numflux=flux)
    q=[symarr(f'q{k}',(n,)) for k in range(neq)]
    f=fd.fdata(model,me,q)
    r=rhs.rhs(f)
    vol=me.vol()
    tot=[sum(vol[i]*r[k][i] for i in range(n)).e for k in range(neq)]
    # abstraction: cut at flux array
    subs={}; 
    for k in range(neq):
        for j in range(n+1):
            e=rhs.flux[k][j].e
            if e.get_id() not in subs: subs[e.get_id()]=(e, z3.Real(f'F{k}_{len(subs)}'))
    pairs=list(subs.values())
    tot2=[z3.substitute(t,*pairs) for t in tot]
    t1=time.time()
    s=z3.Solver(); s.set('timeout',60000)
    for i in range(n): s.add(xf[i+1].e>xf[i].e)
    s.add(z3.Or(*[t!=0 for t in tot2]))
    res=s.check(); t2=time.time()
    print(name,type(num).__name__,getattr(num,'limiter',None) and num.limiter.__name__,'distinct flux terms',len(pairs),'of',neq*(n+1),'trace %.2fs solve %.2fs'%(t1-t0,t2-t1),res)
