"""symbolic scalar over tm.T plugged into same SA shim as sx"""
import sys; sys.path.insert(0,'/tmp/probe')
import sx, tm, numpy as _np
from fractions import Fraction
class PB:
    def __init__(s,t): s.t=t
    def __bool__(s): raise RuntimeError('branch on symbolic '+repr(s.t))
    def __and__(s,o): return PB(tm.mk('and',s.t,o.t))
    def __or__(s,o): return PB(tm.mk('or',s.t,o.t))
    def __invert__(s): return PB(tm.mk('not',s.t))
def L(x): return x.t if isinstance(x,P) else tm.const(x if isinstance(x,(int,Fraction)) else float(x))
class P:
    __slots__=('t',)
    def __init__(s,t): s.t=t
    def _d(f):
        def g(s,o):
            if isinstance(o,_np.ndarray): return NotImplemented
            return f(s,o)
        return g
    @_d
    def __add__(s,o): return P(tm.mk('add',s.t,L(o)))
    __radd__=__add__
    @_d
    def __sub__(s,o): return P(tm.mk('sub',s.t,L(o)))
    @_d
    def __rsub__(s,o): return P(tm.mk('sub',L(o),s.t))
    @_d
    def __mul__(s,o): return P(tm.mk('mul',s.t,L(o)))
    __rmul__=__mul__
    @_d
    def __truediv__(s,o): return P(tm.mk('div',s.t,L(o)))
    @_d
    def __rtruediv__(s,o): return P(tm.mk('div',L(o),s.t))
    def __neg__(s): return P(tm.mk('neg',s.t))
    def __pos__(s): return s
    def __abs__(s): return P(tm.mk('ite',tm.mk('le',tm.ZERO,s.t),s.t,tm.mk('neg',s.t)))
    def __pow__(s,o):
        if isinstance(o,P):
            if o.t.op=='const': o=o.t.v
            else: raise NotImplementedError
        o=Fraction(o) if not isinstance(o,Fraction) else o
        if o.denominator==1:
            n=int(o); r=tm.ONE
            for _ in range(abs(n)): r=tm.mk('mul',r,s.t)
            return P(r if n>=0 else tm.mk('div',tm.ONE,r))
        if o.denominator==2:
            return P(tm.mk('sqrt',s.t))**int(o.numerator)
        raise NotImplementedError('pow %s'%o)
    @_d
    def __lt__(s,o): return PB(tm.mk('lt',s.t,L(o)))
    @_d
    def __le__(s,o): return PB(tm.mk('le',s.t,L(o)))
    @_d
    def __gt__(s,o): return PB(tm.mk('lt',L(o),s.t))
    @_d
    def __ge__(s,o): return PB(tm.mk('le',L(o),s.t))
    @_d
    def __eq__(s,o): return PB(tm.mk('eq',s.t,L(o)))
    __hash__=None
    def copy(s): return s
    def __repr__(s): return f'P({s.t})'
def isP(x): return isinstance(x,(P,PB))
def _mx(a,b):
    if not(isP(a) or isP(b)): return max(a,b)
    return P(tm.mk('ite',tm.mk('le',L(b),L(a)),L(a),L(b)))
def _mn(a,b):
    if not(isP(a) or isP(b)): return min(a,b)
    return P(tm.mk('ite',tm.mk('le',L(a),L(b)),L(a),L(b)))
def _sqrt(x): return P(tm.mk('sqrt',x.t)) if isinstance(x,P) else float(_np.sqrt(x))
def _where(c,a,b):
    if isinstance(c,PB): return P(tm.mk('ite',c.t,L(a),L(b)))
    return a if c else b
sx._UF[_np.minimum]=_mn; sx._UF[_np.maximum]=_mx; sx._UF[_np.sqrt]=_sqrt
sx._UF[_np.power]=lambda a,b: a**b
sx.issym=isP
_oldwhere=sx.np.where
def where(c,a,b):
    A=[_np.asarray(x).view(_np.ndarray) if isinstance(x,_np.ndarray) else x for x in (c,a,b)]
    return _np.frompyfunc(_where,3,1)(*A).view(sx.SA)
sx.np.where=where
def V(n): return P(tm.var(n))
def C(x): return P(tm.const(Fraction(x)))
