import z3, time, sys, subprocess, tempfile, os
F=z3.Float64(); RNE=z3.RNE()
a,b=z3.FP('a',F),z3.FP('b',F)
c=lambda x: z3.FPVal(x,F)
def vanalbada(a,b):
    p=z3.fpMul(RNE,a,b)
    den=z3.fpAdd(RNE,z3.fpAdd(RNE,z3.fpMul(RNE,a,a),z3.fpMul(RNE,b,b)),c(1e-20))
    return z3.If(z3.fpLEQ(p,c(1e-40)), c(0.0), z3.fpDiv(RNE,z3.fpMul(RNE,p,z3.fpAdd(RNE,a,b)),den))
def vanleer(a,b):
    p=z3.fpMul(RNE,a,b)
    s=z3.fpAdd(RNE,z3.fpAbs(z3.fpAdd(RNE,a,b)),c(1e-20))
    sg=z3.If(z3.fpGT(a,c(0.0)),c(1.0),z3.If(z3.fpLT(a,c(0.0)),c(-1.0),c(0.0)))
    return z3.If(z3.fpLEQ(p,c(1e-40)), c(0.0), z3.fpMul(RNE,z3.fpDiv(RNE,z3.fpMul(RNE,c(2.0),p),s),sg))
def minmod(a,b):
    p=z3.fpMul(RNE,a,b)
    return z3.If(z3.fpLEQ(p,c(0.0)),c(0.0),z3.If(z3.fpGT(a,c(0.0)),z3.fpMin(a,b),z3.fpMax(a,b)))
def superbee(a,b):
    p=z3.fpMul(RNE,a,b); two=c(2.0)
    return z3.If(z3.fpLEQ(p,c(0.0)),c(0.0),z3.If(z3.fpGT(a,c(0.0)),z3.fpMin(z3.fpMul(RNE,two,z3.fpMin(a,b)),z3.fpMax(a,b)),z3.fpMax(z3.fpMul(RNE,two,z3.fpMax(a,b)),z3.fpMin(a,b))))
lim={'minmod':minmod,'superbee':superbee,'vanleer':vanleer,'vanalbada':vanalbada}[sys.argv[1]]
prop=sys.argv[2]; hi=float(sys.argv[3]) if len(sys.argv)>3 else 1e150
absa,absb=z3.fpAbs(a),z3.fpAbs(b)
dom=[z3.Or(z3.fpIsZero(a), z3.And(z3.fpGEQ(absa,c(1e-150)),z3.fpLEQ(absa,c(hi)))), z3.Or(z3.fpIsZero(b), z3.And(z3.fpGEQ(absb,c(1e-150)),z3.fpLEQ(absb,c(hi))))]
r=lim(a,b)
if prop=='zero': goal=z3.Implies(z3.Or(z3.fpIsZero(a),z3.fpIsZero(b),z3.fpIsNegative(a)!=z3.fpIsNegative(b)), z3.fpIsZero(r))
elif prop=='bound2': goal=z3.And(z3.fpLEQ(z3.fpAbs(r), z3.fpMul(RNE,c(2.0),z3.fpMin(absa,absb))), z3.fpLEQ(z3.fpAbs(r), z3.fpMax(absa,absb)))
elif prop=='sign': goal=z3.Or(z3.fpIsZero(r), z3.And(z3.fpIsNegative(r)==z3.fpIsNegative(a), z3.fpIsNegative(a)==z3.fpIsNegative(b)))
elif prop=='symm': goal=z3.fpEQ(r, lim(b,a))
elif prop=='odd': goal=z3.fpEQ(z3.fpNeg(r), lim(z3.fpNeg(a),z3.fpNeg(b)))
s=z3.Solver(); [s.add(d) for d in dom]; s.add(z3.Not(goal))
if len(sys.argv)>4 and sys.argv[4]=='cvc5':
    fn=f'/tmp/probe/pg_{sys.argv[1]}_{prop}.smt2'
    open(fn,'w').write('(set-logic QF_FP)\n'+s.to_smt2())
    t=time.time(); out=subprocess.run(['cvc5','--tlimit=300000',fn],capture_output=True,text=True); print(sys.argv[1],prop,'cvc5',out.stdout.strip(),out.stderr.strip()[:200],'%.1fs'%(time.time()-t))
else:
    s.set('timeout',300000); t=time.time(); res=s.check(); print(sys.argv[1],prop,hi,'z3',res,'%.1fs'%(time.time()-t))
    if res==z3.sat:
        m=s.model(); print('  a=',m[a],'b=',m[b],'r=',m.eval(r))
