"""throwaway probe v3: own hash-consed term DAG, numeric simulation, z3 emission, sweeping"""
import math, random, time, itertools
from fractions import Fraction
import z3
class T:
    __slots__=('op','a','v','id','depth')
    _tab={}; _n=0
    def __new__(cls,op,a=(),v=None):
        k=(op,tuple(x.id for x in a),v)
        t=T._tab.get(k)
        if t is None:
            t=object.__new__(cls); t.op=op; t.a=tuple(a); t.v=v; T._n+=1; t.id=T._n
            t.depth=1+max([x.depth for x in a],default=0); T._tab[k]=t
        return t
    def __repr__(s): return f'{s.op}#{s.id}' if s.op not in('var','const') else str(s.v)
def var(n): return T('var',(),n)
def const(x):
    if isinstance(x,T): return x
    if isinstance(x,bool): return T('bconst',(),x)
    if isinstance(x,int): return T('const',(),Fraction(x))
    if isinstance(x,Fraction): return T('const',(),x)
    return T('const',(),Fraction(float(x)))
ZERO=const(0); ONE=const(1)
def isc(t): return t.op=='const'
def mk(op,*a):
    a=[const(x) for x in a]
    # light constant folding / identities (sound)
    if op in('add','sub','mul','div') and isc(a[0]) and isc(a[1]):
        x,y=a[0].v,a[1].v
        if op=='add': return const(x+y)
        if op=='sub': return const(x-y)
        if op=='mul': return const(x*y)
        if op=='div' and y!=0: return const(x/y)
    if op=='add':
        if a[0] is ZERO: return a[1]
        if a[1] is ZERO: return a[0]
        if a[0].id>a[1].id: a=[a[1],a[0]]
    if op=='sub' and a[1] is ZERO: return a[0]
    if op=='mul':
        if a[0] is ONE: return a[1]
        if a[1] is ONE: return a[0]
        if a[0] is ZERO or a[1] is ZERO: return ZERO
        if a[0].id>a[1].id: a=[a[1],a[0]]
    if op=='div' and a[1] is ONE: return a[0]
    if op=='neg':
        if isc(a[0]): return const(-a[0].v)
        if a[0].op=='neg': return a[0].a[0]
    if op=='ite':
        if a[0].op=='bconst': return a[1] if a[0].v else a[2]
        if a[1] is a[2]: return a[1]
    if op in('lt','le','eq') and isc(a[0]) and isc(a[1]):
        x,y=a[0].v,a[1].v; return const({'lt':x<y,'le':x<=y,'eq':x==y}[op])
    if op=='not' and a[0].op=='bconst': return const(not a[0].v)
    if op=='sqrt' and isc(a[0]) and a[0].v>=0:
        r=Fraction(math.isqrt(a[0].v.numerator),math.isqrt(a[0].v.denominator))
        if r*r==a[0].v: return const(r)
    return T(op,a)
def topo(roots):
    seen={}; order=[]
    st=[(r,0) for r in roots]
    while st:
        t,i=st.pop()
        if t.id in seen: continue
        if i==0:
            st.append((t,1)); st.extend((x,0) for x in t.a if x.id not in seen)
        else:
            seen[t.id]=1; order.append(t)
    return order
def evalf(order,env):
    val={}
    for t in order:
        o=t.op; a=[val[x.id] for x in t.a]
        try:
            if o=='var': v=env[t.v]
            elif o=='const': v=float(t.v)
            elif o=='bconst': v=t.v
            elif o=='add': v=a[0]+a[1]
            elif o=='sub': v=a[0]-a[1]
            elif o=='mul': v=a[0]*a[1]
            elif o=='div': v=a[0]/a[1]
            elif o=='neg': v=-a[0]
            elif o=='sqrt': v=math.sqrt(a[0])
            elif o=='pow': v=a[0]**a[1]
            elif o=='log': v=math.log(a[0])
            elif o=='ite': v=a[1] if a[0] else a[2]
            elif o=='lt': v=a[0]<a[1]
            elif o=='le': v=a[0]<=a[1]
            elif o=='eq': v=a[0]==a[1]
            elif o=='and': v=all(a)
            elif o=='or': v=any(a)
            elif o=='not': v=not a[0]
            else: raise KeyError(o)
        except (ZeroDivisionError,ValueError,OverflowError): v=float('nan')
        val[t.id]=v
    return val
def subst(roots,mp):
    """mp: id -> T ; rebuild bottom-up"""
    order=topo(roots); new={}
    for t in order:
        if t.id in mp: new[t.id]=mp[t.id]; continue
        if not t.a: new[t.id]=t; continue
        na=[new[x.id] for x in t.a]
        new[t.id]=t if all(x is y for x,y in zip(na,t.a)) else mk(t.op,*na)
    return [new[r.id] for r in roots]
class Z:
    """emit to z3 with sqrt purification"""
    def __init__(s): s.c={}; s.side=[]
    def __call__(s,t):
        for u in topo([t]):
            if u.id in s.c: continue
            a=[s.c[x.id] for x in u.a]; o=u.op
            if o=='var': e=z3.Real(u.v)
            elif o=='const': e=z3.RealVal(str(u.v))
            elif o=='bconst': e=z3.BoolVal(u.v)
            elif o=='add': e=a[0]+a[1]
            elif o=='sub': e=a[0]-a[1]
            elif o=='mul': e=a[0]*a[1]
            elif o=='div': e=a[0]/a[1]
            elif o=='neg': e=-a[0]
            elif o=='sqrt':
                e=z3.Real(f'sqrt!{u.id}'); s.side.append(z3.And(e>=0,e*e==a[0]))
            elif o=='ite': e=z3.If(a[0],a[1],a[2])
            elif o=='lt': e=a[0]<a[1]
            elif o=='le': e=a[0]<=a[1]
            elif o=='eq': e=a[0]==a[1]
            elif o=='and': e=z3.And(*a)
            elif o=='or': e=z3.Or(*a)
            elif o=='not': e=z3.Not(a[0])
            else: raise KeyError(o)
            s.c[u.id]=e
        return s.c[t.id]
STAT={'q':0,'t':0.0}
DEFINED=True
def valid(goal,assume,to=5000):
    z=Z(); g=z(goal); A=[z(a) for a in assume]
    if DEFINED:
        for u in topo([goal]):
            if u.op=='div' and u.a[1].op!='const': A.append(z(mk('not',mk('eq',u.a[1],ZERO))))
    s=z3.Solver(); s.set('timeout',to)
    for a in A+z.side: s.add(a)
    s.add(z3.Not(g)); t=time.time(); r=s.check(); STAT['q']+=1; STAT['t']+=time.time()-t
    return r
def abstract_shared(x,y,extra=(),k=0):
    ix={u.id for u in topo([x])}; iy={u.id for u in topo([y])}
    sh={i for i in ix&iy}
    memo={}
    def rec(t,d):
        key=(t.id,min(d,k+1))
        if key in memo: return memo[key]
        if d>k and t.id in sh and t.op not in('var','const','bconst','lt','le','eq','and','or','not'):
            r=var(f'abs!{t.id}')
        elif not t.a: r=t
        else:
            na=[rec(u,d+1) for u in t.a]; r=t if all(p is q for p,q in zip(na,t.a)) else mk(t.op,*na)
        memo[key]=r; return r
    import sys; sys.setrecursionlimit(100000)
    X=rec(x,0); Y=rec(y,0)
    E=[]
    sq=[mk('le',ZERO,var(f'abs!{i}')) for i in sh if False]
    return X,Y,E
def sweep(roots,assume,sampler,nsamp=24,to=3000,verbose=False):
    """merge provably equal (or opposite) internal nodes bottom-up; resolve decided conditions. returns new roots"""
    rounds=0; assume0=list(assume)
    while True:
        rounds+=1
        order=topo(list(roots)+list(assume))
        sig={}
        envs=[]
        while len(envs)<nsamp:
            env=sampler(); val=evalf(order,env)
            if all(val[a.id] is True for a in assume): envs.append(val)
        def key(t):
            vs=[envs[k][t.id] for k in range(nsamp)]
            return vs
        real=[t for t in order if t.op not in('lt','le','eq','and','or','not','bconst')]
        boolt=[t for t in order if t.op in('lt','le','eq','and','or','not')]
        classes={}
        for t in real:
            vs=key(t)
            if any(isinstance(v,float) and math.isnan(v) for v in vs): continue
            k=tuple(float('%.9e'%v) for v in vs); kn=tuple(float('%.9e'%(-v)) for v in vs)
            if k in classes: classes[k].append((t,1))
            elif kn in classes: classes[kn].append((t,-1))
            else: classes[k]=[(t,1)]
        mp={}
        # candidate merges, process by depth
        cands=[]
        for k,lst in classes.items():
            if len(lst)>1:
                lst.sort(key=lambda p:(p[0].depth,p[0].id))
                rep,sg0=lst[0]
                for t,sg in lst[1:]: cands.append((t.depth,t.id,t,rep,sg*sg0))
        # conditions constant over samples
        for t in boolt:
            vs=key(t)
            if all(v is True for v in vs): cands.append((t.depth,t.id,t,const(True),0))
            elif all(v is False for v in vs): cands.append((t.depth,t.id,t,const(False),0))
        cands.sort(key=lambda c:(c[0],c[1]))
        changed=False; cur_roots=list(roots); cur_ass=list(assume)
        ident={}  # id->T current image
        for d,_,t,rep,sg in cands:
            # rewrite t and rep under merges so far
            t2,rep2=subst([t,rep],mp)
            tgt=rep2 if sg>=0 or sg==0 else mk('neg',rep2)
            if sg==-1: tgt=mk('neg',rep2)
            if t2 is tgt: 
                continue
            if t2.op in ('var','const','bconst'): continue
            goal=mk('eq',t2,tgt) if sg!=0 else (t2 if rep.v else mk('not',t2))
            r=None
            if sg!=0:
                for kk in (0,1,2,3,4,6):
                    X,Y,E=abstract_shared(t2,tgt,k=kk)
                    if X is Y: r=z3.unsat
                    else: r=valid(mk('eq',X,Y),list(assume0),to)
                    if r==z3.unsat: break
            if r!=z3.unsat:
                r=valid(goal,list(assume0)+[x for x in subst(assume,mp) if x.op!='bconst'],to)
            if verbose: print('  cand',t,'=',('-' if sg==-1 else '')+repr(rep),r)
            if r==z3.unsat:
                mp[t.id]=tgt; changed=True
                # also map t2 if different
                mp[t2.id]=tgt
        roots=subst(roots,mp); assume_new=subst(assume,mp)
        # keep assumptions that did not become trivially true
        assume=list({a.id:a for a in list(assume0)+[a for a in assume_new if a.op!='bconst']}.values())
        if not changed or rounds>=4: return roots,assume
