from common import *
from sx import explore, PathAbort, lift
import flowdyn.field as fd, flowdyn.integration as integ
class M: neq=1; shape=[1]; islinear=0
class Me: ncell=2
class Disc:
    def __init__(s): s.nelem=2; s.calls=[]; s.dts=[]
    def rhs(s,f):
        k=len(s.calls); s.calls.append((f.time,[d.copy() for d in f.data]))
        return [symarr(f'K{k}',(2,))]
    def calc_timestep(s,f,cond):
        k=len(s.dts); d=S(z3.Real(f'dt{k}')); s.dts.append(d); Ctx.cur.side.append(d.e>0); return [d]
integn=sys.argv[1]; maxit=int(sys.argv[2]); nsave=int(sys.argv[3])
ts=[S(z3.Real(f's{i}')) for i in range(nsave)]
assume=[ts[i].e<ts[i+1].e for i in range(nsave-1)]+[ts[0].e>=0]
viol=[]; npaths=0; t0=time.time()
def run():
    disc=Disc(); solver=getattr(integ,integn)(Me(),disc)
    f0=fd.fdata(M(),Me(),[symarr('q',(2,))],t=0.)
    steps=[]
    orig=solver.step
    def step(f,dt):
        steps.append((f.time,dt)); return orig(f,dt)
    solver.step=step
    res=solver.solve(f0,S(z3.Real('cfl')),ts,stop={'maxit':maxit})
    return solver,disc,res,steps
for ctx,(solver,disc,res,steps) in explore(run,assume):
    npaths+=1
    pc=[(c if t else z3.Not(c)) for c,t in ctx.path]+ctx.side+assume
    s=z3.Solver(); s.add(*pc)
    # final time of trajectory
    tend=solver.Qn.time
    # obligations
    obl=[]
    # 1. every step has dt>=0
    for (t,dt) in steps: obl.append(('nonneg step',lift(dt)>=0) if True else None)
    # 2. snapshots: one per requested time <= tend, stamped with requested time
    for i in range(nsave):
        saved=[r for r in res.solutions if r is not solver.Qn]
    times=[lift(r.time) for r in res.solutions]
    expected=[ts[i].e for i in range(nsave)]
    # count of requested times <= tend must equal number of snapshots (when any)
    cnt=z3.Sum([z3.If(e<=lift(tend),1,0) for e in expected])
    nsn=len([r for r in res.solutions if r is not solver.Qn])
    obl.append(('snapshot count',cnt==nsn))
    for j,r in enumerate([r for r in res.solutions if r is not solver.Qn]):
        obl.append((f'snapshot {j} time',lift(r.time)==expected[j]))
    for name,o in obl:
        s.push(); s.add(z3.Not(o)); rr=s.check()
        if rr!=z3.unsat:
            viol.append((name,[t for _,t in ctx.path],rr, s.model() if rr==z3.sat else None))
        s.pop()

print(integn,'maxit',maxit,'nsave',nsave,'paths',npaths,'violations',len(viol),'%.1fs'%(time.time()-t0))
for v in viol[:3]: print('  ',v[0],v[1],v[2],v[3])
