from common import *
import flowdyn.modelphy.euler as eu
gam=S(z3.RealVal('7/5'))
m=eu.euler1d(gamma=gam)
for fl in sys.argv[1:]:
    Ctx.cur=Ctx()
    a,r,uL,uR,cL,cR=[R(x) for x in ('a','r','uL','uR','cL','cR')]
    rhoL=a*a; rhoR=a*a*r*r; pL=rhoL*cL*cL/gam; pR=rhoR*cR*cR/gam
    F=m.numflux(fl,[arr(rhoL),arr(uL),arr(pL)],[arr(rhoR),arr(uR),arr(pR)])
    HL=cL*cL/(gam-1)+uL*uL*0.5
    phys=[rhoL*uL, rhoL*uL*uL+pL, rhoL*uL*HL]
    # Roe average supercritical: uRoe-cRoe>0. express via own formula
    uRoe=(uL+uR*r)/(1+r); HR=cR*cR/(gam-1)+uR*uR*0.5; hRoe=(HL+HR*r)/(1+r)
    cRoe2=(hRoe-uRoe*uRoe*0.5)*(gam-1)
    ass=[a.e>0,r.e>0,cL.e>0,cR.e>0,uL.e>cL.e,uR.e>cR.e,uRoe.e>0,(uRoe*uRoe).e>cRoe2.e]
    for k in range(3):
        prove(f'upwind-right {fl} eq{k}', F[k][0].e==phys[k].e, ass)
