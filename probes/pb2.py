from common import *
import flowdyn.mesh as mesh, flowdyn.modeldisc as md, flowdyn.xnum as xn, flowdyn.field as fd
import flowdyn.modelphy.shallowwater as sw, flowdyn.modelphy.euler as eu
which=sys.argv[1]; flux=sys.argv[2]; drop=sys.argv[3]=='drop'
n=3
Ctx.cur=Ctx()
dx=R('dx'); me=mesh.unimesh(ncell=n,length=3.)
me.xf=arr(*[dx*i for i in range(n+1)]); me.xc=me.calc_centers(); me.length=dx*n
ass=[dx.e>0]
if which=='sw':
    g=R('g'); ass.append(g.e>0)
    model=sw.shallowwater1d(g=g)
    h=symarr('h',(n,)); u=symarr('u',(n,))
    q=[h,h*u]
    for i in range(n): ass.append(h[i].e>0)
else:
    gam=S(z3.RealVal('7/5')); model=eu.euler1d(gamma=gam)
    rho=symarr('rho',(n,)); p=symarr('p',(n,)); u=symarr('u',(n,))
    q=model.prim2cons([rho,u,p])
    for i in range(n): ass+= [rho[i].e>0, p[i].e>0]
rhs=md.fvm(model,me,xn.extrapol1(),numflux=flux)
f=fd.fdata(model,me,q)
r=rhs.rhs(f)
cfl=R('cfl')
dtc=rhs.calc_timestep(f, cfl)
dt=R('dt')
ass+=[dt.e>0, cfl.e>0, cfl.e<=z3.RealVal('1/2')]
for i in range(n): ass.append(dt.e<=dtc[i].e)
new0=q[0][1]+dt*r[0][1]
side=Ctx.cur.side
if drop:
    # keep only nonnegativity of sqrt vars (sound weakening of assumptions => harder to prove, but simpler formulas)
    side=[c.arg(0) for c in side]
print(len(side),'sqrt vars')
prove(f'{which} {flux}: eq0 positivity (sqrt {"abstracted" if drop else "exact"})', new0.e>0, ass+side, to=300000, side=False)
