import sys; sys.path.insert(0,'/tmp/probe')
import sx, z3, time
sx.install()
from sx import S, symarr, Ctx, sa
import numpy as rnp
def arr(*xs):
    a=rnp.empty(len(xs),dtype=object)
    for i,x in enumerate(xs): a[i]=x
    return a.view(sx.SA)
def prove(name, goal, assume, to=120000, side=True):
    t=time.time(); s=z3.Solver(); s.set('timeout',to)
    for a in assume: s.add(a)
    if side:
        for c in Ctx.cur.side: s.add(c)
    s.add(z3.Not(goal)); r=s.check()
    print(name, r, '%.2fs'%(time.time()-t), flush=True)
    if r==z3.sat: print('   model', s.model())
    return r
R=lambda n: S(z3.Real(n))
