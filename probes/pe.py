from common import *
import flowdyn.mesh as mesh, flowdyn.modeldisc as md, flowdyn.xnum as xn, flowdyn.field as fd, flowdyn.integration as integ
import flowdyn.modelphy.convection as cv, flowdyn.modelphy.burgers as bg
modeln,limn,n,prop=sys.argv[1],sys.argv[2],int(sys.argv[3]),sys.argv[4]
Ctx.cur=Ctx()
L=R('L'); 
me=mesh.unimesh(ncell=n,length=1.)
dx=R('dx'); x0=R('x0')
xf=arr(*[x0+dx*i for i in range(n+1)]); me.xf=xf; me.xc=me.calc_centers(); me.length=dx*n
ass=[dx.e>0]
if modeln=='conv':
    a=R('a'); model=cv.model(a); ass.append(a.e!=0)
else:
    model=bg.model()
num=xn.extrapol1() if limn=='o1' else xn.muscl(getattr(xn,limn))
rhs=md.fvm(model,me,num)
u=symarr('u',(n,))
f=fd.fdata(model,me,[u])
cfl=R('cfl'); ass+=[cfl.e>0, cfl.e<=(z3.RealVal(1) if limn=='o1' else z3.RealVal('1/2'))]
if modeln=='conv':
    dtc=rhs.calc_timestep(f,cfl); dt=dtc[0]   # uniform: all equal
else:
    # burgers timestep is a python loop with abs(); emulate min by dt<=all
    dt=R('dt'); ass.append(dt.e>0)
    for i in range(n): ass.append((dt*abs(u[i])).e<=(cfl*dx).e)
solver=integ.explicit(me,rhs)
f2=f.copy(); solver.step(f2,dt)
new=f2.data[0]
def mx(xs):
    r=xs[0]
    for x in xs[1:]: r=z3.If(x>=r,x,r)
    return r
def mn(xs):
    r=xs[0]
    for x in xs[1:]: r=z3.If(x<=r,x,r)
    return r
old=[u[i].e for i in range(n)]; nw=[new[i].e for i in range(n)]
if prop=='maxp':
    goal=z3.And(*[z3.And(x<=mx(old),x>=mn(old)) for x in nw[:1]])   # by translation invariance check one cell? no: check cell 2
    goal=z3.And(nw[2]<=mx(old), nw[2]>=mn(old))
else:
    ab=lambda x: z3.If(x>=0,x,-x)
    tv=lambda v: sum(ab(v[(i+1)%n]-v[i]) for i in range(n))
    goal=tv(nw)<=tv(old)
prove(f'{modeln} {limn} n={n} {prop}', goal, ass, to=600000)
