from common import *
import flowdyn.mesh as mesh, flowdyn.modeldisc as md, flowdyn.xnum as xn, flowdyn.field as fd, flowdyn.integration as integ
import flowdyn.modelphy.convection as cv
n=int(sys.argv[1]); prop=sys.argv[2]
Ctx.cur=Ctx()
me=mesh.unimesh(ncell=n,length=1.)
dx=R('dx'); x0=R('x0')
me.xf=arr(*[x0+dx*i for i in range(n+1)]); me.xc=me.calc_centers(); me.length=dx*n
a=R('a'); model=cv.model(a); ass=[dx.e>0,a.e!=0]
cnt=[0]
def phi(A,B):
    out=[]
    for x,y in zip(A,B):
        cnt[0]+=1; v=z3.Real(f'phi{cnt[0]}'); x,y=x.e,y.e
        ab=lambda t: z3.If(t>=0,t,-t)
        mnab=z3.If(ab(x)<=ab(y),ab(x),ab(y))
        ass.append(z3.And(z3.Implies(x*y<=0, v==0), z3.Implies(x*y>0, z3.And(v*x>=0, ab(v)<=2*mnab))))
        out.append(S(v))
    return arr(*out)
rhs=md.fvm(model,me,xn.muscl(phi))
u=symarr('u',(n,)); f=fd.fdata(model,me,[u])
cfl=R('cfl'); ass+=[cfl.e>0, cfl.e<=z3.RealVal('1/2')]
dt=rhs.calc_timestep(f,cfl)[0]
solver=integ.explicit(me,rhs); f2=f.copy(); solver.step(f2,dt); new=f2.data[0]
def mx(xs):
    r=xs[0]
    for x in xs[1:]: r=z3.If(x>=r,x,r)
    return r
def mn(xs):
    r=xs[0]
    for x in xs[1:]: r=z3.If(x<=r,x,r)
    return r
old=[u[i].e for i in range(n)]; nw=[new[i].e for i in range(n)]
if prop=='maxp': goal=z3.And(nw[2]<=mx(old), nw[2]>=mn(old))
else:
    ab=lambda x: z3.If(x>=0,x,-x); tv=lambda v: sum(ab(v[(i+1)%n]-v[i]) for i in range(n)); goal=tv(nw)<=tv(old)
prove(f'conv muscl(abstract TVD limiter) n={n} {prop}', goal, ass, to=600000)
