import sys; sys.path.insert(0,'/tmp/probe')
import sx, sx2, tm, z3, time, random, numpy as rnp
from sx2 import V,C,P
sx.install()
import flowdyn.modelphy.euler as eu
def arr(*xs):
    a=rnp.empty(len(xs),dtype=object)
    for i,x in enumerate(xs): a[i]=x
    return a.view(sx.SA)
gam=C('7/5'); m=eu.euler1d(gamma=gam)
fl=sys.argv[1]
rhoL,rhoR,uL,uR,pL,pR=[V(x) for x in ('rhoL','rhoR','uL','uR','pL','pR')]
F=m.numflux(fl,[arr(rhoL),arr(uL),arr(pL)],[arr(rhoR),arr(uR),arr(pR)])
G=m.numflux(fl,[arr(rhoR),arr(-uR),arr(pR)],[arr(rhoL),arr(-uL),arr(pL)])
ass=[(rhoL>0).t,(rhoR>0).t,(pL>0).t,(pR>0).t]
def sampler():
    return {'rhoL':random.uniform(.1,3),'rhoR':random.uniform(.1,3),'uL':random.uniform(-3,3),'uR':random.uniform(-3,3),'pL':random.uniform(.1,3),'pR':random.uniform(.1,3)}
roots=[F[0][0].t,F[1][0].t,F[2][0].t,G[0][0].t,G[1][0].t,G[2][0].t]
print('nodes',len(tm.topo(roots)))
t=time.time()
nr,na=tm.sweep(roots,ass,sampler,verbose='-v' in sys.argv)
print('sweep %.1fs'%(time.time()-t), tm.STAT, 'nodes after',len(tm.topo(nr)))
for k,sg in [(0,-1),(1,1),(2,-1)]:
    a,b=nr[k],nr[k+3]
    tgt=b if sg==1 else tm.mk('neg',b)
    print('eq',k,'identical' if a is tgt else tm.valid(tm.mk('eq',a,tgt),na,60000))
