import sys; sys.path.insert(0,'/tmp/probe')
import sx, sx2, tm, z3, time, random, numpy as rnp
from sx2 import V,C,P
sx.install()
import flowdyn.modelphy.euler as eu
def arr(*xs):
    a=rnp.empty(len(xs),dtype=object)
    for i,x in enumerate(xs): a[i]=x
    return a.view(sx.SA)
gam=C('7/5'); m=eu.euler1d(gamma=gam)
fl=sys.argv[1]
a,r,uL,uR,cL,cR=[V(x) for x in ('a','r','uL','uR','cL','cR')]
rhoL=a*a; rhoR=a*a*r*r; pL=rhoL*cL*cL/gam; pR=rhoR*cR*cR/gam
F=m.numflux(fl,[arr(rhoL),arr(uL),arr(pL)],[arr(rhoR),arr(uR),arr(pR)])
HL=cL*cL/(gam-1)+uL*uL*0.5
phys=[rhoL*uL, rhoL*uL*uL+pL, rhoL*uL*HL]
uRoe=(uL+uR*r)/(1+r); HR=cR*cR/(gam-1)+uR*uR*0.5; hRoe=(HL+HR*r)/(1+r)
cRoe=P(tm.mk('sqrt',((hRoe-uRoe*uRoe*0.5)*(gam-1)).t))
ass=[(a>0).t,(r>0).t,(cL>0).t,(cR>0).t,(uL>cL).t,(uR>cR).t,(uRoe>cRoe).t]
def sampler():
    cl=random.uniform(.3,2); cr=random.uniform(.3,2)
    return {'a':random.uniform(.3,2),'r':random.uniform(.3,2),'uL':cl*random.uniform(1.05,3),'uR':cr*random.uniform(1.05,3),'cL':cl,'cR':cr}
roots=[F[k][0].t for k in range(3)]+[phys[k].t for k in range(3)]
print('nodes',len(tm.topo(roots)))
t=time.time()
nr,na=tm.sweep(roots,ass,sampler,verbose='-v' in sys.argv,to=int(sys.argv[2]))
print('sweep %.1fs'%(time.time()-t), tm.STAT, 'nodes after',len(tm.topo(nr)))
for k in range(3):
    x,y=nr[k],nr[k+3]
    print('eq',k,'identical' if x is y else tm.valid(tm.mk('eq',x,y),na,60000),flush=True)
