import sys; sys.path.insert(0,'/tmp/probe')
import sx, sx2, tm, z3, time, random, numpy as rnp
from sx2 import V,C,P
sx.install()
import flowdyn.modelphy.euler as eu
def arr(*xs):
    a=rnp.empty(len(xs),dtype=object)
    for i,x in enumerate(xs): a[i]=x
    return a.view(sx.SA)
gam=C('7/5'); m=eu.euler1d(gamma=gam)
fl=sys.argv[1]
a,r,uL,uR,cL,cR=[V(x) for x in ('a','r','uL','uR','cL','cR')]
rhoL=a*a; rhoR=a*a*r*r; pL=rhoL*cL*cL/gam; pR=rhoR*cR*cR/gam
F=m.numflux(fl,[arr(rhoL),arr(uL),arr(pL)],[arr(rhoR),arr(uR),arr(pR)])
G=m.numflux(fl,[arr(rhoR),arr(-uR),arr(pR)],[arr(rhoL),arr(-uL),arr(pL)])
ass=[(a>0).t,(r>0).t,(cL>0).t,(cR>0).t]
def sampler():
    return {'a':random.uniform(.3,2),'r':random.uniform(.3,2),'uL':random.uniform(-3,3),'uR':random.uniform(-3,3),'cL':random.uniform(.3,2),'cR':random.uniform(.3,2)}
roots=[F[0][0].t,F[1][0].t,F[2][0].t,G[0][0].t,G[1][0].t,G[2][0].t]
print('nodes',len(tm.topo(roots)))
t=time.time()
nr,na=tm.sweep(roots,ass,sampler,verbose='-v' in sys.argv,to=int(sys.argv[2]))
print('sweep %.1fs'%(time.time()-t), tm.STAT, 'nodes after',len(tm.topo(nr)))
for k,sg in [(0,-1),(1,1),(2,-1)]:
    x,y=nr[k],nr[k+3]
    tgt=y if sg==1 else tm.mk('neg',y)
    print('eq',k,'identical' if x is tgt else tm.valid(tm.mk('eq',x,tgt),na,60000),flush=True)
