"""throwaway probe v2: symbolic ndarray subclass + path explorer over z3 Reals"""
import sys, types, numpy as _np, z3
from fractions import Fraction

class PathAbort(BaseException): pass

class Ctx:
    cur=None
    def __init__(self, prefix=()):
        self.side=[]; self.path=[]; self.prefix=list(prefix); self.nfresh=0; self.pending=[]
        self.solver=None; self.sqrtmemo={}
    def fresh(self,pfx='t'):
        self.nfresh+=1; return z3.Real(f'{pfx}!{self.nfresh}')
    def branch(self,e):
        e=z3.simplify(e)
        if z3.is_true(e): return True
        if z3.is_false(e): return False
        i=len(self.path)
        if i<len(self.prefix):
            d=self.prefix[i]
        else:
            # feasibility
            s=z3.Solver(); s.set('timeout',10000)
            for c in self.assume+self.side+[ (c if t else z3.Not(c)) for c,t in self.path]: s.add(c)
            s.push(); s.add(e); rt=s.check(); s.pop()
            s.push(); s.add(z3.Not(e)); rf=s.check(); s.pop()
            okT = rt!=z3.unsat; okF = rf!=z3.unsat
            if okT and okF:
                self.pending.append([t for _,t in self.path]+[False]); d=True
            elif okT: d=True
            elif okF: d=False
            else: raise PathAbort()
        self.path.append((e,d)); return d
    assume=[]

def explore(fn, assume=(), maxpaths=1000):
    """run fn() under all feasible paths; yields (ctx, result)"""
    work=[[]]; n=0
    while work and n<maxpaths:
        pre=work.pop(); c=Ctx(pre); c.assume=list(assume); Ctx.cur=c
        try: r=fn()
        except PathAbort: continue
        n+=1
        work.extend(c.pending)
        yield c,r

class SB:
    __slots__=('e',)
    def __init__(s,e): s.e=e
    def __bool__(s): return Ctx.cur.branch(s.e)
    def __and__(s,o): return SB(z3.And(s.e, o.e)) if isinstance(o,SB) else (s if o else False)
    __rand__=__and__
    def __or__(s,o): return SB(z3.Or(s.e, o.e)) if isinstance(o,SB) else (True if o else s)
    __ror__=__or__
    def __invert__(s): return SB(z3.Not(s.e))

def const(x):
    if isinstance(x,(bool,_np.bool_)): raise TypeError
    if isinstance(x,(int,_np.integer)): return z3.RealVal(int(x))
    fr=Fraction(float(x)); return z3.RealVal(str(fr.numerator)+'/'+str(fr.denominator))
def lift(x):
    return x.e if isinstance(x,S) else const(x)

def _pow(a,o):
    if isinstance(o,S): raise NotImplementedError('symbolic exponent')
    if float(o)==int(o):
        n=int(o); r=z3.RealVal(1)
        for _ in range(abs(n)): r=r*lift(a)
        return S(r if n>=0 else 1/r)
    return S(POW(lift(a), const(o)))
POW=z3.Function('pow',z3.RealSort(),z3.RealSort(),z3.RealSort())
LOG=z3.Function('log',z3.RealSort(),z3.RealSort())

class S:
    __slots__=('e',)
    def __init__(s,e): s.e=e
    def _d(f):
        def g(s,o):
            if isinstance(o,_np.ndarray): return NotImplemented
            return f(s,o)
        return g
    @_d
    def __add__(s,o): return S(s.e+lift(o))
    __radd__=__add__
    @_d
    def __sub__(s,o): return S(s.e-lift(o))
    @_d
    def __rsub__(s,o): return S(lift(o)-s.e)
    @_d
    def __mul__(s,o): return S(s.e*lift(o))
    __rmul__=__mul__
    @_d
    def __truediv__(s,o): return S(s.e/lift(o))
    @_d
    def __rtruediv__(s,o): return S(lift(o)/s.e)
    def __neg__(s): return S(-s.e)
    def __pos__(s): return s
    def __abs__(s): return S(z3.If(s.e>=0, s.e, -s.e))
    def __pow__(s,o): return _pow(s,o)
    def __rpow__(s,o): raise NotImplementedError
    @_d
    def __lt__(s,o): return SB(s.e<lift(o))
    @_d
    def __le__(s,o): return SB(s.e<=lift(o))
    @_d
    def __gt__(s,o): return SB(s.e>lift(o))
    @_d
    def __ge__(s,o): return SB(s.e>=lift(o))
    @_d
    def __eq__(s,o): return SB(s.e==lift(o))
    @_d
    def __ne__(s,o): return SB(s.e!=lift(o))
    __hash__=None
    def copy(s): return s
    def __repr__(s): return f'S({s.e})'
    def __float__(s): raise TypeError('symbolic value concretised')

def issym(x): return isinstance(x,(S,SB))
def _sqrt(x):
    if not isinstance(x,S): return float(_np.sqrt(x))
    c=Ctx.cur; k=x.e.get_id()
    if k in c.sqrtmemo: return S(c.sqrtmemo[k][1])
    t=c.fresh('sqrt'); c.side.append(z3.And(t>=0, t*t==x.e)); c.sqrtmemo[k]=(x.e,t); return S(t)
def _mx(a,b):
    if not (issym(a) or issym(b)): return max(a,b)
    return S(z3.If(lift(a)>=lift(b), lift(a), lift(b)))
def _mn(a,b):
    if not (issym(a) or issym(b)): return min(a,b)
    return S(z3.If(lift(a)<=lift(b), lift(a), lift(b)))
def _sign(x):
    if isinstance(x,S): return S(z3.If(x.e>0,z3.RealVal(1),z3.If(x.e<0,z3.RealVal(-1),z3.RealVal(0))))
    return float(_np.sign(x))
def _log(x):
    return S(LOG(x.e)) if isinstance(x,S) else float(_np.log(x))
import operator as op
_UF={ _np.add:op.add,_np.subtract:op.sub,_np.multiply:op.mul,_np.true_divide:op.truediv,_np.negative:op.neg,_np.positive:op.pos,
 _np.absolute:abs,_np.power:lambda a,b: _pow(a,b) if issym(a) else a**b,_np.sqrt:_sqrt,_np.minimum:_mn,_np.maximum:_mx,_np.sign:_sign,
 _np.less:op.lt,_np.less_equal:op.le,_np.greater:op.gt,_np.greater_equal:op.ge,_np.equal:op.eq,_np.not_equal:op.ne,_np.log:_log,
 _np.square:lambda a:a*a, _np.logical_and:lambda a,b:a&b, _np.logical_or:lambda a,b:a|b}

class SA(_np.ndarray):
    """object ndarray whose ufuncs are evaluated elementwise in Python"""
    def __array_finalize__(self,obj): pass
    def __array_ufunc__(self, ufunc, method, *inputs, out=None, **kw):
        if method!='__call__' or ufunc not in _UF: raise NotImplementedError((ufunc,method))
        ins=[_np.asarray(x).view(_np.ndarray) if isinstance(x,_np.ndarray) else x for x in inputs]
        f=_np.frompyfunc(_UF[ufunc],len(ins),1)
        r=f(*ins)
        if out is not None:
            o=out[0]; o.view(_np.ndarray)[...]=r; return o
        if isinstance(r,_np.ndarray): return r.view(SA)
        return r
def sa(x):
    a=_np.empty(_np.shape(x),dtype=object); a[...]=x; return a.view(SA)
def symarr(name,shape):
    a=_np.empty(shape,dtype=object)
    for idx in _np.ndindex(*a.shape): a[idx]=S(z3.Real(name+'_'+'_'.join(map(str,idx))))
    return a.view(SA)
def anysym(*xs):
    for x in xs:
        if issym(x): return True
        if isinstance(x,_np.ndarray) and x.dtype==object: return True
        if isinstance(x,(list,tuple)) and anysym(*x): return True
    return False

class Shim(types.ModuleType):
    def __getattr__(self,n): return getattr(_np,n)
np=Shim('symnp')
def _ozeros(shape):
    a=_np.empty(shape,dtype=object); a[...]=0.0; return a.view(SA)
np.zeros=lambda shape,dtype=None: _np.zeros(shape,dtype) if dtype is not None else _ozeros(shape)
np.zeros_like=lambda a: _ozeros(a.shape)
np.ones=lambda shape: (lambda a:(a.__setitem__(Ellipsis,1.0),a)[1])(_ozeros(shape))
def _where(c,a,b):
    if not anysym(c,a,b): return _np.where(c,a,b)
    def f(c,a,b):
        if isinstance(c,SB):
            ce=z3.simplify(c.e)
            if z3.is_true(ce): return a
            if z3.is_false(ce): return b
            return S(z3.If(ce, lift(a), lift(b)))
        return a if c else b
    return _np.frompyfunc(f,3,1)(*[_np.asarray(x).view(_np.ndarray) if isinstance(x,_np.ndarray) else x for x in (c,a,b)]).view(SA)
np.where=_where
for nm,uf in [('maximum',_np.maximum),('minimum',_np.minimum),('sqrt',_np.sqrt),('abs',_np.absolute),('sign',_np.sign),('log',_np.log)]:
    def mk(uf):
        def g(*a):
            if not anysym(*a): return uf(*a)
            a=[sa(x) if not isinstance(x,_np.ndarray) else x.view(SA) for x in a]
            r=uf(*a)
            return r[()] if isinstance(r,_np.ndarray) and r.ndim==0 else r
        return g
    setattr(np,nm,mk(uf))
def _sum(a,axis=None):
    if not anysym(a): return _np.sum(a,axis=axis)
    a=_np.asarray(a)
    if axis is None:
        r=0
        for x in a.flat: r=r+x
        return r
    return _np.add.reduce(a.view(_np.ndarray),axis=axis).view(SA)
np.sum=_sum
def _min(a):
    if not anysym(a): return _np.min(a)
    a=_np.asarray(a)
    if a.ndim==0: return a[()]
    r=None
    for x in a.flat: r=x if r is None else _mn(r,x)
    return r
np.min=_min
def _average(a,weights=None):
    if not anysym(a,weights): return _np.average(a,weights=weights)
    return _sum(a*weights)/_sum(weights)
np.average=_average
def _einsum(spec,a,b):
    if not anysym(a,b): return _np.einsum(spec,a,b)
    assert spec=='ij,ij->j'
    return _sum(sa(a)*sa(b) if False else (a*b),axis=0)
np.einsum=_einsum

def install():
    m=types.ModuleType('matplotlib'); mp=types.ModuleType('matplotlib.pyplot'); m.pyplot=mp
    sys.modules['matplotlib']=m; sys.modules['matplotlib.pyplot']=mp
    sys.path.insert(0,'/repo')
    import flowdyn.mesh, flowdyn.modeldisc, flowdyn.xnum, flowdyn.integration, flowdyn.field, flowdyn._data, flowdyn.meshbase, flowdyn.mesh2d
    import flowdyn.modelphy.euler, flowdyn.modelphy.convection, flowdyn.modelphy.burgers, flowdyn.modelphy.shallowwater
    for name,mod in list(sys.modules.items()):
        if name.startswith('flowdyn') and hasattr(mod,'np'): mod.np=np
