#!/usr/bin/env python3
"""Rewrites the two generated tables of DESIGN.md (between the marker comments) from evidence/*.json and seeded/*/result.json."""
import glob
import json
import os
import re

VERIF = os.path.dirname(os.path.dirname(os.path.abspath(__file__)))


def short(s, n=150):
    s = (s or '').replace('|', '/').replace('\n', ' ')
    return s if len(s) <= n else s[:n - 3] + '...'


def seeds():
    rows = []
    for d in sorted(glob.glob(os.path.join(VERIF, 'seeded', '*', ''))):
        name = os.path.basename(d.rstrip('/'))
        try:
            meta = json.load(open(d + 'meta.json'))
            res = json.load(open(d + 'result.json'))
        except Exception:
            continue
        ok = lambda v: v['exit'] == 1 and v['violations'] > 0
        caught = [k for k, v in res['checks'].items() if ok(v)]
        missed = [k for k, v in res['checks'].items() if not ok(v)]
        first = ''
        for k in caught:
            f = res['checks'][k]['first']
            if f:
                first = f[0].split(' cfg=')[0].replace('obligation=', '')
                break
        rows.append('| %s | %s | %s | %s | %s%s | `%s` |' % (
            name, meta.get('property'), short(meta.get('summary')), short(meta.get('needs')), ', '.join(caught),
            (' (not: %s)' % ', '.join(missed)) if missed else '', first))
    return ('| seed | property | change | needs | caught by (quick tier) | first violated obligation |\n|---|---|---|---|---|---|\n'
            + '\n'.join(rows) + '\n')


def claims():
    rows = []
    for p in sorted(glob.glob(os.path.join(VERIF, 'evidence', 'C??.json'))):
        e = json.load(open(p))
        c = e['coverage']
        kn = sum(c.get('known_findings_matched', {}).values())
        rows.append('| %s | %s | %d | %d | %d | %d | %d | %d | %.0f | %.0f |' % (
            e['property_id'], e['tier'], c['configurations'], c['obligations'], c['discharged'], c['distinct_nontrivial'],
            c['inconclusive'], kn, c['solver_seconds'], e['wall_s']))
    return ('| id | tier of the committed evidence | configurations | obligations | proved | of which by a solver query | inconclusive | matched known findings | solver s | wall s |\n'
            '|---|---|---|---|---|---|---|---|---|---|\n' + '\n'.join(rows) + '\n')


def main():
    p = os.path.join(VERIF, 'DESIGN.md')
    s = open(p).read()
    for tag, fn in (('SEEDS-TABLE', seeds), ('CLAIMS-TABLE', claims)):
        a, b = '<!-- %s-BEGIN -->' % tag, '<!-- %s-END -->' % tag
        if a in s and b in s:
            s = s[:s.index(a) + len(a)] + '\n' + fn() + s[s.index(b):]
    open(p, 'w').write(s)


if __name__ == '__main__':
    main()
