#!/usr/bin/env python3
"""evaluate a seeded mutation produced in a scratch worktree /tmp/wt/<name>:
   tools/seed_eval.py <name> <property> [<extra property checks> ...]
 1. copies seed/{patch.diff,demo.py,meta.json} to /verif/seeded/<name>/
 2. confirms demo.py fails with the change and passes without it (in the worktree)
 3. runs the unedited test suite with the change (in the worktree)
 4. runs ./check <property> --tier quick against the worktree (FLOWDYN_REPO) with output redirected (VT_OUT) and records the result
"""
import json
import os
import shutil
import subprocess
import sys
import time

VERIF = os.path.dirname(os.path.dirname(os.path.abspath(__file__)))


def sh(cmd, cwd=None, env=None, timeout=3600):
    e = dict(os.environ)
    if env:
        e.update(env)
    p = subprocess.run(cmd, shell=True, cwd=cwd, env=e, capture_output=True, text=True, timeout=timeout)
    return p.returncode, (p.stdout + p.stderr)


def main():
    name = sys.argv[1]
    props = sys.argv[2:]
    wt = '/tmp/wt/' + name
    dst = os.path.join(VERIF, 'seeded', name)
    os.makedirs(dst, exist_ok=True)
    for f in ('patch.diff', 'demo.py', 'meta.json'):
        shutil.copy(os.path.join(wt, 'seed', f), os.path.join(dst, f))
    env = {'PYTHONPATH': wt}
    res = {'name': name, 'properties_checked': props}
    # the worktree must carry exactly the patch
    rc, out = sh('git diff -- flowdyn', cwd=wt)
    res['worktree_diff_equals_patch'] = out.strip() == open(os.path.join(dst, 'patch.diff')).read().strip()
    rc1, o1 = sh('/venv/bin/python seed/demo.py', cwd=wt, env=env)
    # (no git stash: the stash is shared by all worktrees of a repository)
    sh('git apply -R seed/patch.diff', cwd=wt)
    rc0, o0 = sh('/venv/bin/python seed/demo.py', cwd=wt, env=env)
    sh('git apply seed/patch.diff', cwd=wt)
    res['demo_with_change'] = {'exit': rc1, 'tail': o1.strip()[-300:]}
    res['demo_without_change'] = {'exit': rc0, 'tail': o0.strip()[-300:]}
    if '--skip-suite' not in props:
        t0 = time.time()
        rc, out = sh('/venv/bin/python -m pytest -q -p no:cacheprovider --timeout=900 2>&1 | tail -3', cwd=wt, env=env, timeout=7200)
        res['suite_with_change'] = out.strip().splitlines()[-1] if out.strip() else ''
        res['suite_seconds'] = round(time.time() - t0)
    else:
        # re-evaluation after a check was changed: keep the suite result of the earlier evaluation of the same patch
        try:
            prev = json.load(open(os.path.join(dst, 'result.json')))
            for k in ('suite_with_change', 'suite_seconds', 'suite_note'):
                if k in prev:
                    res[k] = prev[k]
        except Exception:
            pass
    props = [p for p in props if not p.startswith('--')]
    outdir = '/tmp/vtout/' + name
    os.makedirs(outdir, exist_ok=True)
    res['checks'] = {}
    for p in props:
        t0 = time.time()
        rc, out = sh('./check %s --tier quick' % p, cwd=VERIF, env={'FLOWDYN_REPO': wt, 'VT_OUT': outdir}, timeout=7200)
        lines = out.strip().splitlines()
        viol = [l for l in lines if l.startswith('VIOLATION')]
        detail = [l.strip() for l in lines if l.startswith('   obligation=')]
        res['checks'][p] = {'exit': rc, 'violations': len(viol), 'first': detail[:3], 'summary': lines[-1] if lines else '',
                            'harness_errors': len([l for l in lines if l.startswith('HARNESS-ERROR')]), 'seconds': round(time.time() - t0)}
    res['detected'] = any(v['exit'] == 1 and v['violations'] > 0 for v in res['checks'].values())
    with open(os.path.join(dst, 'result.json'), 'w') as f:
        json.dump(res, f, indent=1)
    print(json.dumps(res, indent=1))
    shutil.rmtree(outdir, ignore_errors=True)


if __name__ == '__main__':
    main()
