#!/usr/bin/env python3
"""Development aid (not a check): which executable lines of /repo/flowdyn were executed SYMBOLICALLY by the checks.

usage:  VT_COVER=/some/dir ./check Cxx --tier quick      (for every property; each configuration process dumps its lines)
        python3 tools/cover_report.py /some/dir [--by-prop]

A line that no configuration executes cannot be covered by any obligation: a change there is invisible to the checks.
Executable lines are taken from the code objects of the compiled source (co_lines), not from a text heuristic."""
import json
import os
import sys

REPO = os.environ.get('FLOWDYN_REPO', '/repo')


def exec_lines(path):
    src = open(path).read()
    code = compile(src, path, 'exec')
    out = set()
    stack = [code]
    while stack:
        c = stack.pop()
        for _, _, ln in c.co_lines():
            if ln is not None:
                out.add(ln)
        for k in c.co_consts:
            if hasattr(k, 'co_lines'):
                stack.append(k)
    return out, src.split('\n')


def main():
    d = sys.argv[1]
    seen = {}
    byprop = {}
    for fn in os.listdir(d):
        if not fn.endswith('.json'):
            continue
        pid = fn.split('-')[0]
        for f, ln in json.load(open(os.path.join(d, fn))):
            seen.setdefault(f, set()).add(ln)
            byprop.setdefault(f, {}).setdefault(ln, set()).add(pid)
    tot = cov = 0
    skip = ('flowdyn/solution/', 'flowdyn/monitors.py')
    for root, _, files in os.walk(os.path.join(REPO, 'flowdyn')):
        for fn in sorted(files):
            if not fn.endswith('.py'):
                continue
            p = os.path.join(root, fn)
            rel = os.path.relpath(p, REPO)
            ex, lines = exec_lines(p)
            s = seen.get(rel, set())
            miss = sorted(ex - s)
            # def/class/decorator lines execute at import time only (before tracing): not counted as misses
            miss = [m for m in miss if not lines[m - 1].lstrip().startswith(('def ', 'class ', '@', '"""', "'''", 'import ', 'from '))]
            tot += len(ex)
            cov += len(ex) - len(miss)
            print('%-40s executable %4d  not executed symbolically %4d' % (rel, len(ex), len(miss)))
            if any(rel.startswith(k) for k in skip) and '--all' not in sys.argv:
                continue
            for m in miss:
                print('      %4d: %s' % (m, lines[m - 1].rstrip()[:110]))
    print('TOTAL executable %d, executed symbolically (or import-time) %d' % (tot, cov))


if __name__ == '__main__':
    main()
