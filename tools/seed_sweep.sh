#!/bin/sh
# Regression over all kept seeded changes: re-runs the quick checks recorded in seeded/<name>/result.json against the
# scratch worktree /tmp/wt/<name> (re-created from seeded/<name>/patch.diff when missing), two at a time.
# usage: tools/seed_sweep.sh [name ...]        (default: every seed)
cd "$(dirname "$0")/.." || exit 2
names="$*"
[ -z "$names" ] && names=$(ls seeded)
for n in $names; do
  [ -f "seeded/$n/patch.diff" ] || continue
  if [ ! -d "/tmp/wt/$n" ]; then
    git -C /repo worktree add -q "/tmp/wt/$n" HEAD && git -C "/tmp/wt/$n" apply "$(pwd)/seeded/$n/patch.diff" || { echo "cannot rebuild worktree for $n"; continue; }
    mkdir -p "/tmp/wt/$n/seed" && cp seeded/$n/patch.diff seeded/$n/demo.py seeded/$n/meta.json "/tmp/wt/$n/seed/"
  fi
  props=$(python3 -c "import json;print(' '.join(json.load(open('seeded/$n/result.json'))['properties_checked']))" 2>/dev/null)
  [ -z "$props" ] && props=$(python3 -c "import json;print(json.load(open('seeded/$n/meta.json'))['property'])")
  echo "$n $props --skip-suite"
done | xargs -P 2 -L 1 sh -c 'python3 tools/seed_eval.py "$@" > /tmp/seed_$1.log 2>&1; python3 -c "
import json,sys
d=json.load(open(\"seeded/$1/result.json\"))
print(\"$1\", \"detected\" if d[\"detected\"] else \"MISSED\", {k:(v[\"exit\"],v[\"violations\"],v[\"harness_errors\"]) for k,v in d[\"checks\"].items()})"' _
