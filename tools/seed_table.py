#!/usr/bin/env python3
"""markdown table of the seeded mutations and which checks caught them (from seeded/*/meta.json and result.json)"""
import json, os, glob
V = os.path.dirname(os.path.dirname(os.path.abspath(__file__)))
rows = []
for d in sorted(glob.glob(os.path.join(V, 'seeded', '*'))):
    name = os.path.basename(d)
    try:
        m = json.load(open(os.path.join(d, 'meta.json')))
        r = json.load(open(os.path.join(d, 'result.json')))
    except Exception:
        continue
    caught = [k for k, v in r['checks'].items() if v['exit'] == 1 and v['violations'] > 0]
    missed = [k for k, v in r['checks'].items() if not (v['exit'] == 1 and v['violations'] > 0)]
    ob = ''
    for k in caught:
        f = r['checks'][k]['first']
        if f:
            ob = f[0].split(' cfg=')[0].replace('obligation=', '')
            break
    rows.append('| %s | %s | %s | %s | %s | %s |' % (name, m.get('property'), m.get('summary', '').replace('|', '/')[:160], m.get('needs', '').replace('|', '/')[:170],
                                               ', '.join(caught) + ((' (not: ' + ', '.join(missed) + ')') if missed else ''), ob[:70]))
print('| seed | property | change | needs | caught by (quick tier) | first obligation |')
print('|---|---|---|---|---|---|')
print('\n'.join(rows))
