#!/usr/bin/env python3
"""regenerate /verif/MANIFEST.json from the property modules' metadata (python3-vt tools/gen_manifest.py)"""
import importlib
import json
import os
import sys

VERIF = os.path.dirname(os.path.dirname(os.path.abspath(__file__)))
sys.path.insert(0, VERIF)
ALL = ['C%02d' % i for i in range(1, 21)]
PENDING_REASON = 'check not built yet in this session (planned, see DESIGN.md section 3); nothing is claimed for it'


def main():
    checks = []
    na = []
    for pid in ALL:
        p = os.path.join(VERIF, 'vt', 'props', pid + '.py')
        if not os.path.exists(p):
            na.append({'property_id': pid, 'reason': PENDING_REASON})
            continue
        m = importlib.import_module('vt.props.' + pid)
        if getattr(m, 'NOT_APPLICABLE', None):
            na.append({'property_id': pid, 'reason': m.NOT_APPLICABLE})
            continue
        checks.append({
            'property_id': pid,
            'quick_cmd': './check %s --tier quick' % pid,
            'thorough_cmd': './check %s --tier thorough' % pid,
            'evidence_file': '/verif/evidence/%s.json' % pid,
            'replay_cmd_template': './check %s --replay {path}' % pid,
            'engine': 'vt',
            'level_claimed': {
                'category': 'other',
                'text': getattr(m, 'LEVEL_TEXT', 'Bounded SMT verification of the real code: z3 decides every obligation for all '
                                                 'values of the symbolic inputs within the stated bounds.'),
                'design_ref': 'DESIGN.md section 3, ' + pid,
            },
            'level_note': 'Bounds: ' + m.BOUNDS + ' | Outside the claim: ' + getattr(m, 'OUTSIDE', '') +
                          ' | Assumptions: ' + '; '.join(getattr(m, 'ASSUMPTIONS', [])),
            'technique': getattr(m, 'TECHNIQUE', 'symbolic execution of the real Python/numpy code into a term DAG + z3 (QF_NRA) '
                                                 'validity queries; counterexamples replayed on the real build'),
        })
    man = {
        'version': 1,
        'setup_cmd': 'python3-vt -c "import z3, numpy, scipy; print(z3.get_version_string())" && test -x /venv/bin/python',
        'hooks': {
            'guard': 'FLOWDYN_VERIF',
            'enable': 'no hooks are needed: the checks import the unmodified /repo sources with the name numpy bound '
                      'to a numpy model (vt/npshim.py); the guard name is reserved and unused',
            'baseline_off_cmd': 'cd /repo && /venv/bin/python -m pytest -ra -q -p no:cacheprovider --timeout=900 '
                                '--continue-on-collection-errors',
            'source_commits': [],
            'add_only': True,
        },
        'engines': [{
            'name': 'vt',
            'path': '/verif/vt',
            'serves_properties': [c['property_id'] for c in checks],
            'kind_free_text': 'symbolic execution of the real flowdyn modules (numpy model with object arrays of '
                              'hash-consed terms, path exploration of Python branches) + z3 SMT queries (exact reals, '
                              'binary64 FP for C12) + concrete replay of every model under /venv/bin/python',
        }],
        'checks': checks,
        'notes': 'All checks: ./check <id> --tier quick|thorough ; exit 0 ok, 1 VIOLATION (replayed on the real build), '
                 '3 harness error. Genuine defects found and repaired are listed in known_findings.json (fixed) with '
                 'their fix: commits in /repo; unrepaired ones are printed as KNOWN-FINDING.',
        'not_applicable': na,
    }
    with open(os.path.join(VERIF, 'MANIFEST.json'), 'w') as f:
        json.dump(man, f, indent=1)
    print('MANIFEST.json: %d checks, %d not_applicable' % (len(checks), len(na)))


if __name__ == '__main__':
    main()
