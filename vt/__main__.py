import sys
from vt.core import main
sys.exit(main())
