"""Path explorer: depth-first re-execution of a Python function under decision prefixes.
Every bool() of a symbolic condition is a decision point; both outcomes are checked for
feasibility against assumptions + model side constraints + the path so far (z3); infeasible
sides are pruned, `unknown` sides are kept (sound) and counted."""
from . import term as tm
from . import ctx as _ctx
from . import sym
from . import prove


class PathAbort(BaseException):
    """raised inside the explored function when the current prefix is infeasible"""


class BoundReached(BaseException):
    """the path needs more symbolic decisions than max_depth"""


class Path:
    def __init__(self, ctx, result, exc=None):
        self.ctx = ctx
        self.result = result
        self.exc = exc

    @property
    def conds(self):
        return self.ctx.pathcond()

    @property
    def decisions(self):
        return [d for _, d in self.ctx.path]


class Explorer:
    def __init__(self, assume=(), max_paths=2000, max_depth=200, timeout_ms=10000, fork_where=False, feasibility=True):
        self.assume = [a for a in assume if a is not tm.TRUE]
        self.max_paths = max_paths
        self.max_depth = max_depth
        self.timeout_ms = timeout_ms
        self.fork_where = fork_where
        self.feasibility = feasibility
        self.stats = {'paths': 0, 'pruned': 0, 'unknown_kept': 0, 'bound_reached': 0, 'aborted': 0,
                      'truncated': False}

    def _feasible(self, c, cond):
        dyn = []
        B = getattr(c, 'backend', None)
        if B is not None:
            dyn = list(B.case.assume)
        r, _ = prove.satisfiable(self.assume + dyn + c.side + c.pathcond() + [cond], self.timeout_ms)
        if r == 'unknown':
            self.stats['unknown_kept'] += 1
        return r != 'unsat'

    def run(self, fn, root_prefix=None):
        """generator of Path objects, one per feasible execution path of fn() (below root_prefix if given)"""
        work = [list(root_prefix) if root_prefix else []]
        while work:
            if self.stats['paths'] >= self.max_paths:
                self.stats['truncated'] = True
                return
            prefix = work.pop()
            c = _ctx.new()
            c.fork_where = self.fork_where
            pending = []

            def branch(cond, c=c, prefix=prefix, pending=pending):
                i = len(c.path)
                # a condition already decided on this path (or its negation) keeps its decision
                for pc, pd in c.path:
                    if pc is cond:
                        return pd
                    if (pc.op == 'not' and pc.a[0] is cond) or (cond.op == 'not' and cond.a[0] is pc):
                        return not pd
                if i < len(prefix):
                    d = prefix[i]
                elif not self.feasibility:
                    if i >= self.max_depth:
                        raise BoundReached()
                    pending.append([x for _, x in c.path] + [False])
                    d = True
                else:
                    if i >= self.max_depth:
                        raise BoundReached()
                    okT = self._feasible(c, cond)
                    okF = self._feasible(c, tm.Not(cond))
                    if okT and okF:
                        pending.append([x for _, x in c.path] + [False])
                        d = True
                    elif okT:
                        d = True
                        self.stats['pruned'] += 1
                    elif okF:
                        d = False
                        self.stats['pruned'] += 1
                    else:
                        raise PathAbort()
                c.path.append((cond, d))
                return d
            old = sym.BRANCH[0]
            sym.BRANCH[0] = branch
            try:
                try:
                    res = fn()
                    exc = None
                except PathAbort:
                    self.stats['aborted'] += 1
                    work.extend(pending)
                    continue
                except BoundReached:
                    self.stats['bound_reached'] += 1
                    work.extend(pending)
                    continue
                except sym.NoExplorer:
                    raise
                except Exception as e:  # the explored code itself raised on this path
                    res = None
                    exc = e
            finally:
                sym.BRANCH[0] = old
            work.extend(pending)
            self.stats['paths'] += 1
            yield Path(c, res, exc)


def explore(fn, assume=(), **kw):
    ex = Explorer(assume, **kw)
    for p in ex.run(fn):
        yield p
    explore.last_stats = ex.stats


def single(fn):
    """run fn() once in a fresh context without path exploration (branching is an error)"""
    c = _ctx.new()
    return c, fn()
