"""Symbolic scalars.  P wraps a real term, PB a boolean term.  Python operators build terms;
bool(PB) asks the active path explorer (vt.explore) for a decision; float()/int() of a
symbolic value raise (no silent concretisation)."""
from fractions import Fraction
import numpy as _np
from . import term as tm


class Concretised(TypeError):
    pass


class NoExplorer(RuntimeError):
    pass


# the active path explorer installs its branch function here
BRANCH = [None]


def L(x):
    """lift anything scalar to a term"""
    if isinstance(x, P):
        return x.t
    if isinstance(x, PB):
        return x.t
    if isinstance(x, tm.T):
        return x
    return tm.const(x)


class PB:
    __slots__ = ('t',)
    __array_priority__ = 1000

    def __init__(s, t):
        s.t = t

    def __bool__(s):
        if s.t.op == 'bconst':
            return s.t.v
        if BRANCH[0] is None:
            raise NoExplorer('python-level branch on symbolic condition %r outside a path explorer' % (s.t,))
        return BRANCH[0](s.t)

    def __and__(s, o):
        if isinstance(o, PB):
            return PB(tm.mk('and', s.t, o.t))
        return s if o else PB(tm.FALSE)
    __rand__ = __and__

    def __or__(s, o):
        if isinstance(o, PB):
            return PB(tm.mk('or', s.t, o.t))
        return PB(tm.TRUE) if o else s
    __ror__ = __or__

    def __invert__(s):
        return PB(tm.mk('not', s.t))

    def __eq__(s, o):
        if isinstance(o, PB):
            return PB(tm.Or(tm.And(s.t, o.t), tm.And(tm.Not(s.t), tm.Not(o.t))))
        return s if o else ~s
    __hash__ = None

    def __repr__(s):
        return 'PB(%s)' % tm.show(s.t, 4)


def _d(f):
    def g(s, o):
        if isinstance(o, _np.ndarray):
            return NotImplemented
        return f(s, o)
    g.__name__ = f.__name__
    return g


def pow_term(base, e):
    """base ** e with e an exact rational: integer -> repeated product, half-integer -> sqrt,
    otherwise the uninterpreted pow(base, e) (axioms are supplied by the prover)"""
    if isinstance(e, tm.T):
        if e.op != 'const':
            return tm.T('pow', (base, e))
        e = e.v
    e = Fraction(e) if not isinstance(e, Fraction) else e
    if e.denominator == 1:
        n = int(e)
        if n == 0:
            return tm.ONE
        r = base
        for _ in range(abs(n) - 1):
            r = tm.mk('mul', r, base)
        return r if n >= 0 else tm.mk('div', tm.ONE, r)
    if e.denominator == 2 and tm.MODE == 'real':
        return pow_term(tm.mk('sqrt', base), e.numerator)
    return tm.mk('pow', base, tm.const(e))


class P:
    __slots__ = ('t',)
    __array_priority__ = 1000

    def __init__(s, t):
        s.t = t

    @_d
    def __add__(s, o): return P(tm.mk('add', s.t, L(o)))
    __radd__ = __add__
    @_d
    def __sub__(s, o): return P(tm.mk('sub', s.t, L(o)))
    @_d
    def __rsub__(s, o): return P(tm.mk('sub', L(o), s.t))
    @_d
    def __mul__(s, o): return P(tm.mk('mul', s.t, L(o)))
    __rmul__ = __mul__
    @_d
    def __truediv__(s, o): return P(tm.mk('div', s.t, L(o)))
    @_d
    def __rtruediv__(s, o): return P(tm.mk('div', L(o), s.t))
    def __neg__(s): return P(tm.mk('neg', s.t))
    def __pos__(s): return s
    def __abs__(s): return P(tm.mk('abs', s.t))

    def __pow__(s, o):
        if isinstance(o, _np.ndarray):
            return NotImplemented
        if isinstance(o, P):
            return P(pow_term(s.t, o.t))
        if isinstance(o, (int, Fraction)) or (isinstance(o, _np.integer)):
            return P(pow_term(s.t, Fraction(int(o)) if not isinstance(o, Fraction) else o))
        f = float(o)
        return P(pow_term(s.t, Fraction(f)))

    def __rpow__(s, o):
        # constant ** symbolic: only when the exponent is itself a constant term
        if s.t.op == 'const':
            return P(tm.const(o)) ** s
        raise NotImplementedError('constant ** symbolic exponent')

    @_d
    def __lt__(s, o): return PB(tm.mk('lt', s.t, L(o)))
    @_d
    def __le__(s, o): return PB(tm.mk('le', s.t, L(o)))
    @_d
    def __gt__(s, o): return PB(tm.mk('lt', L(o), s.t))
    @_d
    def __ge__(s, o): return PB(tm.mk('le', L(o), s.t))
    @_d
    def __eq__(s, o): return PB(tm.mk('eq', s.t, L(o)))
    @_d
    def __ne__(s, o): return PB(tm.mk('not', tm.mk('eq', s.t, L(o))))
    __hash__ = None

    def copy(s):
        return s

    def conjugate(s):
        return s

    @property
    def real(s):
        return s

    @property
    def ndim(s):
        return 0

    @property
    def shape(s):
        return ()

    @property
    def size(s):
        return 1

    def __float__(s):
        if s.t.op == 'const':
            return float(s.t.v)
        raise Concretised('symbolic value concretised by float(): %r' % (s.t,))

    def __int__(s):
        if s.t.op == 'const' and s.t.v.denominator == 1:
            return int(s.t.v)
        raise Concretised('symbolic value concretised by int(): %r' % (s.t,))
    __index__ = __int__

    def __bool__(s):
        return bool(PB(tm.mk('not', tm.mk('eq', s.t, tm.ZERO))))

    def __repr__(s):
        return 'P(%s)' % tm.show(s.t, 4)

    def __format__(s, spec):
        return repr(s)


def isP(x):
    return isinstance(x, (P, PB))


def V(name):
    return P(tm.var(name))


def C(x):
    """exact constant (int, Fraction, or string like '7/5')"""
    return P(tm.const(Fraction(x)))
