"""Check driver shared by all properties.

A property module (vt/props/Cxx.py) provides

  ID, TITLE, FUNCTIONS (qualified names of the flowdyn functions it encodes), BOUNDS (text),
  ASSUMPTIONS (list of text), configs(tier) -> list of JSON-able dicts,
  harness(cfg, B) -> Case      the *same* code runs in two modes:
        symbolic  (python3-vt, numpy model, B.var() = solver variable)  -> obligations proved by z3
        concrete  (/venv/bin/python, real numpy, B.var() = float from a solver model) -> replay

A counterexample is reported as VIOLATION only after the concrete replay on the real build
reproduces it.  Exit codes: 0 ok, 1 violation, 3 harness error (e.g. model not reproducible).
"""
import json
import math
import os
import re
import subprocess
import sys
import time
import hashlib
import traceback
from fractions import Fraction

from . import term as tm
from . import sym
from .sym import P, PB, L

VERIF = os.path.dirname(os.path.dirname(os.path.abspath(__file__)))
OUT = os.environ.get('VT_OUT', VERIF)          # evidence/ and replays/ go here (redirected when running against seeded mutations)
REPLAY_PY = os.environ.get('VT_REPLAY_PY', '/venv/bin/python')


# ----------------------------------------------------------------------------------------
class Ob:
    """one proof obligation:  kind in eq | le | lt | true ;  meta is JSON-able"""
    __slots__ = ('name', 'kind', 'lhs', 'rhs', 'meta', 'tol', 'method', 'hints', 'replayable', 'timeout_ms', 'assume', 'cuts', 'facts', 'scales')

    def __init__(self, name, kind, lhs, rhs=None, meta=None, tol=1e-9, method='direct', hints=(), replayable=True,
                 timeout_ms=None, assume=(), cuts=(), facts=(), scales=()):
        self.name = name
        self.kind = kind
        self.lhs = lhs
        self.rhs = rhs
        self.meta = meta or {}
        self.tol = tol
        self.method = method
        self.hints = list(hints)
        self.replayable = replayable
        self.timeout_ms = timeout_ms
        self.assume = list(assume)     # extra assumptions local to this obligation (e.g. path condition)
        self.cuts = list(cuts)         # indices into hints: those (swept) hint terms are cut to fresh variables (method 'split')
        self.scales = list(scales)     # symbolic scale factors: the sweep also proposes proportional nodes t = monomial(scales)*r
        self.facts = list(facts)       # bool terms mentioning the hints: proved first, then kept as constraints on the cut variables

    def goal(self):
        if self.kind == 'true':
            return L(self.lhs)
        a, b = L(self.lhs), L(self.rhs)
        return {'eq': tm.eq, 'le': tm.le, 'lt': tm.lt}[self.kind](a, b)


class Case:
    def __init__(self):
        self.assume = []      # bool terms (symbolic) / bools (concrete)
        self.obs = []
        self.notes = []
        self.info = {}


class Backend:
    """supplies inputs to a harness: solver variables (symbolic) or model values (concrete)"""

    def __init__(self, symbolic, env=None, fd=None, fill_seed=None):
        self.symbolic = symbolic
        self.env = env or {}
        self.fd = fd
        self.fill_seed = fill_seed      # concrete mode: inputs missing from env get a reproducible pseudo-random dyadic value
        self.dom = {}
        self.case = Case()
        if symbolic:
            from . import npshim
            self.np = npshim.np
            self._npshim = npshim
        else:
            import numpy
            self.np = numpy

    # -- scalars ---------------------------------------------------------------------
    def var(self, name, lo=-2.0, hi=2.0):
        self.dom[name] = (lo, hi)
        if self.symbolic:
            return P(tm.var(name))
        v = self.env.get(name)
        if v is None and self.fill_seed is not None:
            h = int(hashlib.sha256(('%s|%s' % (name, self.fill_seed)).encode()).hexdigest()[:8], 16) / 2.0 ** 32
            v = math.floor((lo + (hi - lo) * (0.05 + 0.9 * h)) * 1024) / 1024.0
            if v == 0.0:
                v = 1.0 / 1024
            self.env[name] = v
        if v is None:
            v = (lo + hi) / 2.0
        return float(Fraction(v)) if not isinstance(v, float) else v

    def pos(self, name, lo=0.2, hi=3.0):
        x = self.var(name, lo, hi)
        self.assume(x > 0)
        return x

    def const(self, q):
        """exact rational constant supplied by the harness (never a rounded float in symbolic mode)"""
        q = Fraction(q)
        if self.symbolic:
            return P(tm.const(q))
        return float(q)

    # -- arrays ----------------------------------------------------------------------
    def array(self, xs):
        if self.symbolic:
            return self._npshim.sa(list(xs)) if not hasattr(xs, 'shape') else self._npshim.sa(xs)
        import numpy
        return numpy.array(xs, dtype=float)

    def vararray(self, name, shape, lo=-2.0, hi=2.0, positive=False):
        import numpy
        if isinstance(shape, int):
            shape = (shape,)
        a = numpy.empty(shape, dtype=object)
        for idx in numpy.ndindex(*shape):
            nm = name + '_' + '_'.join(map(str, idx))
            a[idx] = self.pos(nm, max(lo, 0.2), hi) if positive else self.var(nm, lo, hi)
        if self.symbolic:
            return a.view(self._npshim.SymArray)
        return a.astype(float)

    # -- case building ---------------------------------------------------------------
    def assume(self, c):
        if self.symbolic:
            t = L(c)
            if t is not tm.TRUE:
                self.case.assume.append(t)
        else:
            self.case.assume.append(bool(c))

    def ob(self, name, kind, lhs, rhs=None, **kw):
        o = Ob(name, kind, lhs, rhs, **kw)
        self.case.obs.append(o)
        return o

    def eq_arrays(self, name, A, Bv, **kw):
        kw = dict(kw)
        import numpy
        A = numpy.asarray(A, dtype=object)
        Bv = numpy.asarray(Bv, dtype=object)
        if A.shape != Bv.shape:
            self.ob(name + ':shape', 'true', self.boolean(False), meta={'shapes': [list(A.shape), list(Bv.shape)]})
            return
        for idx in numpy.ndindex(*A.shape):
            self.ob('%s[%s]' % (name, ','.join(map(str, idx))), 'eq', A[idx], Bv[idx], **kw)

    def boolean(self, b):
        if self.symbolic:
            return PB(tm.const(bool(b)))
        return bool(b)

    def note(self, s):
        if s not in self.case.notes:
            self.case.notes.append(s)

    def sampler(self, seed=0):
        from . import prove
        return prove.Sampler(self.dom, seed)


# ----------------------------------------------------------------------------------------
# concrete evaluation of an obligation (replay side)
def _f(x):
    if isinstance(x, P):
        if x.t.op == 'const':
            return float(x.t.v)
        raise TypeError('symbolic value in concrete replay')
    return float(x)


def concrete_violated(ob):
    """(violated?, detail) for an obligation whose sides are concrete numbers"""
    if ob.kind == 'true':
        v = ob.lhs
        if isinstance(v, PB):
            v = v.t.v
        return (not bool(v)), {'value': bool(v)}
    a, b = _f(ob.lhs), _f(ob.rhs)
    det = {'lhs': a, 'rhs': b}
    if any(math.isnan(x) or math.isinf(x) for x in (a, b)):
        det['nonfinite'] = True
        return ob.meta.get('finite_required', False), det
    scale = max(1.0, abs(a), abs(b), float(ob.meta.get('scale', 0.0)))
    if ob.meta.get('relative'):
        scale = max(abs(a), abs(b), 1e-300)       # purely relative comparison (quantities of arbitrary magnitude)
    if ob.kind == 'eq':
        return abs(a - b) > ob.tol * scale, det
    if ob.kind == 'le':
        return a > b + ob.tol * scale, det
    if ob.kind == 'lt':
        return not (a < b), det
    raise ValueError(ob.kind)


# ----------------------------------------------------------------------------------------
def load_prop(pid):
    import importlib
    return importlib.import_module('vt.props.' + pid)


def cfg_key(cfg):
    return json.dumps(cfg, sort_keys=True)


def _jsonable_env(env):
    return {k: (str(v) if isinstance(v, Fraction) else (repr(v) if isinstance(v, float) else v)) for k, v in env.items()}


def run_config_symbolic(pid, cfg, tier, seed):
    """worker entry: returns a JSON-able record for one configuration"""
    cfg = dict(cfg, _tier=tier)
    from . import prove, loader, explore, ctx as _ctx
    mod = load_prop(pid)
    t0 = time.time()
    tm.reset()
    tm.set_mode('fp' if cfg.get('domain') == 'fp' else 'real')
    prove.stats_reset()
    # concrete sub-computations of the symbolic run (constants, zero arrays) are real floats: a NaN or inf produced there (0/0,
    # x/0) would silently vanish in the exact-real reading (0 * NaN = 0), so it is raised instead
    import numpy as _real_np
    _real_np.seterr(divide='raise', invalid='raise')
    rec = {'cfg': {k: v for k, v in cfg.items() if k != '_tier'}, 'obligations': [], 'error': None, 'notes': [], 'paths': 0}
    try:
        fd = loader.fresh(symbolic=True)
        timeout_ms = cfg.get('timeout_ms', 20000 if tier == 'quick' else 120000)
        cases = []
        explore_mode = bool(getattr(mod, 'EXPLORE', False) or cfg.get('explore'))
        if not explore_mode:
            from . import sym as _sym
            try:
                c = _ctx.new()
                c.fork_where = False
                B = Backend(True, fd=fd)
                mod.harness(cfg, B)
                cases.append((B, None))
                rec['paths'] = 1
            except _sym.NoExplorer as e:
                # the code under test branches in Python on a symbolic value (not anticipated for this configuration, e.g. after a
                # change of /repo): fall back to path exploration instead of failing
                rec['notes'].append('python-level branch on a symbolic value met (%s): configuration re-run under the path explorer' % str(e)[:120])
                cases = []
                explore_mode = True
        if not explore_mode:
            pass
        elif True:
            # path exploration: the harness is re-executed per path; assumptions come from a dry pre-pass
            ex = explore.Explorer(assume=[], max_paths=cfg.get('max_paths', 4000),
                                  max_depth=cfg.get('max_depth', 400), fork_where=cfg.get('fork_where', False),
                                  timeout_ms=cfg.get('feas_timeout_ms', 10000),
                                  feasibility=not cfg.get('no_feasibility', False))

            def fn():
                B = Backend(True, fd=fd)
                _ctx.cur().backend = B      # assumptions made so far are visible to feasibility checks
                mod.harness(cfg, B)
                return B
            for path in ex.run(fn, root_prefix=cfg.get('path_prefix')):
                if path.exc is not None:
                    B = path.ctx.backend
                    B.case.obs = [Ob('no-exception', 'true', PB(tm.FALSE), meta={'exception': repr(path.exc)[:300]})]
                    cases.append((B, path))
                else:
                    cases.append((path.result, path))
            rec['explorer'] = ex.stats
            rec['paths'] = ex.stats['paths']
            if ex.stats['truncated']:
                rec['obligations'].append({'name': 'path-exploration-complete', 'kind': 'true', 'verdict': 'unknown', 's': 0.0,
                                           'size': 0, 'method': 'explore', 'note': 'max_paths reached: exploration truncated'})
        for B, path in cases:
            case = B.case
            assume = list(case.assume)
            side = list(path.ctx.side) if path is not None else list(_ctx.cur().side)
            pc = path.conds if path is not None else []
            notes = (path.ctx.notes if path is not None else _ctx.cur().notes) + case.notes
            for n in notes:
                if n not in rec['notes']:
                    rec['notes'].append(n)
            A = assume + side + pc
            # non-vacuity witness for this case
            wit = prove.witness(A, B.sampler(seed), tries=200, roots=[o.goal() for o in case.obs[:40]])
            if wit is None:
                r, env = prove.satisfiable(A, 2000)
                wit_status = {'sat': 'solver-sat', 'unsat': 'VACUOUS', 'unknown': 'unknown'}[r]
                if wit_status == 'VACUOUS' and path is not None:
                    wit_status = 'infeasible-path'      # explored without feasibility pruning: nothing to prove here
            else:
                wit_status = 'sampled'
            rec.setdefault('witness', []).append(wit_status)
            if wit_status == 'infeasible-path':
                continue
            if cfg.get('_fidelity') and path is None and wit is not None and cfg.get('domain') != 'fp':
                # translator validation: the traced terms evaluated numerically at a sampled point; the parent compares them with the
                # values the same harness produces on the real numpy / real flowdyn at that point
                obs_f = [o for o in case.obs if o.kind in ('eq', 'le', 'lt') and o.replayable and
                         not any(t.op == 'uf' for t in tm.topo([L(o.lhs), L(o.rhs)]))][:60]
                roots = [L(o.lhs) for o in obs_f] + [L(o.rhs) for o in obs_f]
                order = tm.topo(roots)
                if obs_f and not side:
                    names_ = [t.v for t in order if t.op == 'var']
                    envf = {k: wit.get(k, 0.5) for k in set(names_) | set(wit)}
                    val = tm.evalf(order, envf)
                    rec['fidelity'] = {'env': {k: repr(float(v)) for k, v in envf.items()},
                                       'values': [[o.name, val[L(o.lhs).id], val[L(o.rhs).id]] for o in obs_f]}
            # joint SMT sweeping of all obligations that ask for it (lemmas are shared between them)
            sw = [o for o in case.obs if o.method in ('sweep', 'split') and o.goal() is not tm.TRUE]
            swept = {}
            groups = {}
            for o in sw:
                groups.setdefault((o.method == 'split',) + tuple(L(a).id for a in o.assume), []).append(o)
            for key, obs_g in groups.items():
                goals = [o.goal() for o in obs_g]
                hints = [L(h) for o in obs_g for h in o.hints]
                Ag = A + [L(a) for a in obs_g[0].assume]
                budget = cfg.get('sweep_budget_s', 60 if tier == 'quick' else 600) / max(1, len(groups))
                if obs_g[0].method == 'split':
                    # staged pipeline: sweep up to the depth of the hints, cut the hint nodes, sweep the cut DAG, split
                    o0 = obs_g[0]
                    h0 = [L(h) for h in o0.hints]
                    facts = [L(f) for f in o0.facts]
                    md = max([h.depth for h in h0], default=0) + 1
                    okfacts = [f for f in facts if prove.valid(f, Ag, 20000).verdict == 'proved']
                    g1, log1 = prove.sweep(goals, Ag, B.sampler(seed), timeout_ms=cfg.get('sweep_timeout_ms', min(timeout_ms, 3000)), hints=h0,
                                           budget_s=max(budget, cfg.get('stage1_budget_s', 150)), max_depth=md, protect=okfacts,
                                           scales=[L(x) for x in o0.scales])
                    sh = log1.pop('swept_hints', h0)
                    okf = log1.pop('swept_protect', okfacts)
                    mp = {}
                    for k in o0.cuts:
                        h = sh[k]
                        base = h.a[0] if h.op == 'neg' else h
                        if base.op not in ('var', 'const'):
                            nm = 'cut!%d' % k
                            mp[base.id] = tm.var(nm)
                            B.dom[nm] = (-3.0, 3.0)
                    cutall = tm.subst(g1 + okf + Ag, mp)
                    g2, f2, A2 = cutall[:len(goals)], cutall[len(goals):len(goals) + len(okf)], cutall[len(goals) + len(okf):]
                    A2 = [a for a in A2 + f2 if a is not tm.TRUE]
                    r3, log3 = prove.sweep(g2, A2, B.sampler(seed), timeout_ms=2000, budget_s=budget, scales=[L(x) for x in o0.scales])
                    log3.pop('swept_hints', None)
                    log3.pop('swept_protect', None)
                    rec.setdefault('sweeps', []).append({'stage1': log1, 'cuts': len(mp), 'facts_proved': len(okf),
                                                         'facts': len(facts), 'stage2': log3})
                    for o, g in zip(obs_g, r3):
                        swept[id(o)] = (g, A2)
                    continue
                newg, log = prove.sweep(goals, Ag, B.sampler(seed), timeout_ms=cfg.get('sweep_timeout_ms', min(timeout_ms, 3000)), hints=hints, budget_s=budget,
                                        scales=[L(x) for x in obs_g[0].scales])
                log.pop('swept_hints', None)
                log.pop('swept_protect', None)
                rec.setdefault('sweeps', []).append(log)
                for o, g in zip(obs_g, newg):
                    swept[id(o)] = (g, None)
            for o in case.obs:
                nrep = sum(1 for r0 in rec['obligations'] if r0.get('verdict') == 'cex' and
                           (r0.get('replay') or {}).get('status') in ('reproduced', 'reproduced-other'))
                if nrep >= cfg.get('max_violations', 4) and o.goal() is not tm.TRUE:
                    rec['obligations'].append({'name': o.name, 'kind': o.kind, 'verdict': 'unknown', 's': 0.0, 'size': 0,
                                               'method': o.method, 'note': 'skipped: this configuration already has %d replayed violations' % nrep})
                    continue
                orec = discharge(mod, pid, cfg, o, A, B, timeout_ms, seed, path, swept.get(id(o)))
                rec['obligations'].append(orec)
    except Exception as e:
        rec['error'] = '%s: %s\n%s' % (type(e).__name__, e, traceback.format_exc()[-1500:])
    rec['stats'] = prove.stats_snapshot()
    rec['wall_s'] = time.time() - t0
    return rec


def discharge(mod, pid, cfg, o, A, B, timeout_ms, seed, path, swept_goal=None):
    from . import prove
    from . import ctx as _ctx_mod
    goal = o.goal()
    AA = A + [L(a) for a in o.assume]
    to = o.timeout_ms or timeout_ms
    orec = {'name': o.name, 'kind': o.kind, 'verdict': None, 's': 0.0, 'size': tm.size([goal]), 'method': o.method}
    if o.meta:
        orec['meta'] = o.meta
    t0 = time.time()
    if goal is tm.TRUE:
        orec['verdict'] = 'proved'
        orec['how'] = 'identical terms (hash-consing + constant folding)'
    elif goal is tm.FALSE and False:
        pass
    else:
        res = None
        if cfg.get('domain') == 'fp':
            from . import fp as _fp
            genv = _fp.guided_cex_fp(goal, AA, seed=seed)
            if genv is not None:
                res = prove.Result('cex', env=genv, note='binary64 point proposed by sampling, decided sat by z3 (QF_FP) with pinned inputs')
            else:
                res = _fp.valid_fp(goal, AA, to)
        elif o.replayable and orec['size'] > cfg.get('guided_min_size', 40):
            lins = (path.ctx.memo if path is not None else _ctx_mod.cur().memo).get('linsolves')
            genv, how = prove.guided_cex(goal, AA, B.sampler(seed + 1), defined=not o.meta.get('no_definedness', False), linsolves=lins,
                                         tries=cfg.get('guided_tries', 120))
            if genv is not None:
                res = prove.Result('cex', env=genv, note='model proposed by simulation, ' + (
                    'decided sat by z3 with pinned inputs' if how == 'z3-pinned' else
                    'z3 pinned evaluation timed out (nested algebraic numbers): reported only if the replay reproduces it'))
                orec['guided'] = how
        if res is not None:
            pass
        elif o.method == 'split':
            g3, A3 = swept_goal if swept_goal is not None else (goal, AA)
            if A3 is None:
                A3 = AA
            st = {'leaves': 0, 'pruned': 0, 'unknown_leaves': 0}
            res = prove.split_prove(g3, A3, to, expand=o.meta.get('expand_minmax', True),
                                    deadline=time.time() + o.meta.get('split_budget_s', 120), stats=st)
            orec['split'] = st
            if res.verdict == 'cex':
                # a model under the cut is only a proposal: decide it on the uncut goal with the inputs pinned
                names = [n for n in tm.variables([goal] + AA)]
                pins = [tm.eq(tm.var(k), tm.const(v)) for k, v in res.env.items() if k in names and v is not None]
                r2 = prove.valid(goal, AA + pins, min(to, 10000))
                if r2.verdict == 'cex':
                    res = r2
                else:
                    res = prove.Result('unknown', note='model under the cut did not carry over to the uncut goal (%s)' % r2.verdict)
        elif o.method == 'sweep':
            g2 = swept_goal[0] if swept_goal is not None else goal
            if g2 is tm.TRUE:
                res = prove.Result('proved', note='sweep')
            else:
                res = prove.valid(g2, AA, to)
                if res.verdict == 'cex':
                    # a model of the swept goal is a model of the original (merges are equalities)
                    pass
        elif o.meta.get('search_only'):
            # the proof of this statement is carried by other obligations (a lemma chain): here only the search for violations ran
            res = prove.Result('searched', note='search for violations only (simulation-guided models); proved through: ' + str(o.meta['search_only']))
        elif o.meta.get('sqrt_level') == 0:
            # CEGAR on square roots: level 0 keeps only s >= 0; a model found there is only a proposal, re-decided exactly
            res = prove.valid(goal, AA, to, sqrt_exact=False)
            orec['sqrt_level'] = 0
            if res.verdict != 'proved':
                res = prove.valid(goal, AA, to)
                orec['sqrt_level'] = 1
        else:
            res = prove.valid(goal, AA, to, defined=not o.meta.get('no_definedness', False))
        if res.verdict == 'cex' and o.meta.get('lemma'):
            # a lemma of a proof decomposition is stronger than the property: a model against it is not a violation, it only
            # means that the decomposition does not apply to this code (the clause it supports stays searched, not proved)
            orec['env'] = _jsonable_env(res.env)
            res = prove.Result('unknown', note='lemma of the proof decomposition does not hold on this code (model kept in env): '
                                               'decomposition not applicable, the supported clause is only searched for violations')
        orec['verdict'] = res.verdict
        if res.note:
            orec['note'] = res.note
        if (res.verdict == 'proved' and o.method == 'direct' and cfg.get('_tier') == 'thorough' and cfg.get('domain') != 'fp'
                and B.case.info.get('_xchecks', 0) < 2 and goal is not tm.TRUE and not o.meta.get('sqrt_level') == 0):
            # second opinion on a sample of final queries: the distribution z3 4.8.12 binary on the SMT-LIB2 dump
            B.case.info['_xchecks'] = B.case.info.get('_xchecks', 0) + 1
            orec['xcheck'] = cross_check(goal, AA, defined=not o.meta.get('no_definedness', False))
            if orec['xcheck'].get('verdict') == 'sat':
                orec['verdict'] = 'unknown'
                orec['note'] = 'solver disagreement: z3 5.1 unsat, z3 4.8.12 sat'
                res = prove.Result('unknown', note=orec['note'])
        known = load_known()
        excl = []
        rounds = 0
        if res.verdict == 'cex' and orec.get('guided') == 'float-proposal':
            rep = replay_subprocess(pid, cfg, res.env, o.name, None)
            if rep.get('status') not in ('reproduced', 'reproduced-other'):
                orec['guided'] = 'float-proposal-not-reproduced'
                res = prove.valid(goal, AA, to, defined=not o.meta.get('no_definedness', False))
                orec['verdict'] = res.verdict
        while res.verdict == 'cex':
            orec['env'] = _jsonable_env(res.env)
            if not o.replayable:
                orec['replay'] = {'status': 'not-replayable', 'detail': 'obligation over an abstraction (stub/uninterpreted function)'}
                break
            rep = replay_subprocess(pid, cfg, res.env, o.name, path.decisions if path is not None else None)
            orec['replay'] = rep
            if rep.get('status') not in ('reproduced', 'reproduced-other'):
                # try a model with "nice" (dyadic) values before giving up: float conversion of an
                # arbitrary rational model can destroy an exact tie the counterexample relies on
                res2 = nice_model(goal, AA + excl, B, to) if cfg.get('domain') != 'fp' else None
                if res2 is not None:
                    rep2 = replay_subprocess(pid, cfg, res2.env, o.name, None)
                    if rep2.get('status') in ('reproduced', 'reproduced-other'):
                        res = res2
                        orec['env'] = _jsonable_env(res.env)
                        orec['replay'] = rep = rep2
                if rep.get('status') not in ('reproduced', 'reproduced-other'):
                    break
            e = match_known(pid, cfg, orec, known)
            if e is None or 'when' not in e.get('match', {}) or rounds >= 3:
                break
            # a listed finding: exclude its identifying predicate and look for a *different* violation
            rounds += 1
            orec.setdefault('known', []).append(e['id'])
            orec['known_env'] = orec['env']
            orec['known_replay'] = rep
            excl.append(tm.Not(L(_eval_when(e['match']['when'], o.name, symbolic=True))))
            res = prove.valid(goal, AA + excl, to, defined=not o.meta.get('no_definedness', False))
            orec['verdict_after_exclusion'] = res.verdict
            if res.verdict != 'cex':
                orec['verdict'] = 'known'
                orec.pop('replay', None)
                if res.verdict == 'unknown':
                    orec['note'] = 'after excluding the known finding: unknown'
    orec['s'] = round(time.time() - t0, 3)
    if orec['size'] <= 60:
        orec['text'] = tm.show(goal, 8)[:600]
    return orec


def cross_check(goal, assume, defined=True, timeout_s=20):
    from . import prove
    import tempfile
    txt = prove.to_smt2(goal, assume, defined=defined)
    t0 = time.time()
    try:
        with tempfile.NamedTemporaryFile('w', suffix='.smt2', delete=False) as f:
            f.write(txt)
            fn = f.name
        out = subprocess.run(['/usr/bin/z3', '-T:%d' % timeout_s, fn], capture_output=True, text=True, timeout=timeout_s + 10)
        os.unlink(fn)
        lines = out.stdout.strip().splitlines()
        if any('(error' in ln for ln in lines):
            return {'solver': 'z3-4.8.12', 'verdict': 'error', 's': round(time.time() - t0, 2), 'detail': lines[0][:120]}
        v = lines[0].strip() if lines else 'none'
        return {'solver': 'z3-4.8.12', 'verdict': v if v in ('sat', 'unsat', 'unknown', 'timeout') else 'other', 's': round(time.time() - t0, 2)}
    except Exception as e:     # noqa
        return {'solver': 'z3-4.8.12', 'verdict': 'error', 'detail': repr(e)[:100]}


def replay_subprocess(pid, cfg, env, obname, decisions=None, keep=None):
    """run the concrete replay of one counterexample under the real build; returns dict"""
    case = {'property': pid, 'cfg': cfg, 'env': _jsonable_env(env), 'obligation': obname}
    if decisions is not None:
        case['decisions'] = decisions
    h = hashlib.sha256(json.dumps(case, sort_keys=True).encode()).hexdigest()[:12]
    d = os.path.join(OUT, 'replays')
    os.makedirs(d, exist_ok=True)
    path = os.path.join(d, '%s-%s.json' % (pid, h))
    with open(path, 'w') as f:
        json.dump(case, f, indent=1, sort_keys=True)
    try:
        out = subprocess.run([REPLAY_PY, os.path.join(VERIF, 'vt', 'replay_main.py'), path], capture_output=True,
                             text=True, timeout=600, env=dict(os.environ, PYTHONPATH=VERIF))
        last = [ln for ln in out.stdout.splitlines() if ln.startswith('REPLAY ')]
        if not last:
            return {'status': 'error', 'path': path, 'detail': (out.stdout + out.stderr)[-800:]}
        r = json.loads(last[-1][7:])
        r['path'] = path
        return r
    except subprocess.TimeoutExpired:
        return {'status': 'error', 'path': path, 'detail': 'replay timeout'}


def sample_fallback(pid, cfg):
    """concrete execution of the harness at pseudo-random points (subprocess, real build); returns {'obligation','env','replay'} only
    when a violated obligation was found AND the ordinary replay of that point reproduces it"""
    cfg = {k: v for k, v in cfg.items() if not k.startswith('_')}
    case = {'property': pid, 'cfg': cfg, 'env': {}, 'mode': 'sample', 'obligation': None}
    d = os.path.join(OUT, 'replays')
    os.makedirs(d, exist_ok=True)
    path = os.path.join(d, '%s-sample-%s.json' % (pid, hashlib.sha256(cfg_key(cfg).encode()).hexdigest()[:10]))
    json.dump(case, open(path, 'w'))
    try:
        out = subprocess.run([REPLAY_PY, os.path.join(VERIF, 'vt', 'replay_main.py'), path], capture_output=True, text=True, timeout=300,
                             env=dict(os.environ, PYTHONPATH=VERIF))
        last = [ln for ln in out.stdout.splitlines() if ln.startswith('REPLAY ')]
        r = json.loads(last[-1][7:]) if last else {}
    except Exception:
        return None
    finally:
        try:
            os.remove(path)
        except OSError:
            pass
    if r.get('status') != 'sample-violation':
        return None
    env = {k: float(v) for k, v in r['env'].items()}
    rep = replay_subprocess(pid, cfg, env, r['obligation'], None)
    if rep.get('status') not in ('reproduced', 'reproduced-other'):
        return None
    return {'obligation': r['obligation'], 'env': _jsonable_env(env), 'replay': rep}


def _parse_num(v):
    try:
        return Fraction(v)
    except (ValueError, ZeroDivisionError):
        return float(v)


def replay_case(case):
    """concrete side (runs under /venv/bin/python with the real numpy and the real flowdyn)"""
    from . import loader
    mod = load_prop(case['property'])
    fd = loader.fresh(symbolic=False)
    env = {k: (_parse_num(v) if isinstance(v, str) else v) for k, v in case['env'].items()}
    if case.get('mode') == 'sample':
        return _sample_case(case, mod, fd)
    B = Backend(False, env=env, fd=fd)
    import warnings
    import numpy
    with warnings.catch_warnings():
        warnings.simplefilter('ignore')
        with numpy.errstate(all='ignore'):
            try:
                mod.harness(case['cfg'], B)
            except Exception as e:
                return {'status': 'exception', 'detail': '%s: %s' % (type(e).__name__, e),
                        'trace': traceback.format_exc()[-1200:]}
    if case.get('mode') == 'values':
        vals = []
        for o in B.case.obs:
            if o.kind in ('eq', 'le', 'lt'):
                try:
                    vals.append([o.name, _f(o.lhs), _f(o.rhs)])
                except Exception:
                    pass
        return {'status': 'values', 'values': vals}
    if not all(B.case.assume):
        return {'status': 'assumption-false', 'detail': 'model violates a harness assumption after float conversion'}
    want = case.get('obligation')
    hits = []
    for o in B.case.obs:
        v, det = concrete_violated(o)
        if v:
            hits.append({'name': o.name, 'detail': det})
    if any(h['name'] == want for h in hits):
        return {'status': 'reproduced', 'violated': [h['name'] for h in hits][:10],
                'detail': [h for h in hits if h['name'] == want][0]['detail']}
    if hits:
        return {'status': 'reproduced-other', 'violated': [h['name'] for h in hits][:10], 'detail': hits[0]['detail']}
    names = [o.name for o in B.case.obs]
    return {'status': 'not-reproduced', 'detail': 'obligation present: %s' % (want in names)}


def _sample_case(case, mod, fd):
    """fallback when the SYMBOLIC execution of a configuration aborted (exception in the traced code or an operation outside the numpy
    model): the same harness is executed concretely on the real build at a few reproducible pseudo-random admissible points. A
    violated obligation (or an exception of the real code) found this way is a real failing input; nothing is concluded otherwise."""
    import warnings
    import numpy
    for seed in range(int(case.get('tries', 8))):
        B = Backend(False, env={}, fd=fd, fill_seed=seed)
        exc = None
        with warnings.catch_warnings():
            warnings.simplefilter('ignore')
            with numpy.errstate(all='ignore'):
                try:
                    mod.harness(case['cfg'], B)
                except Exception as e:
                    exc = '%s: %s' % (type(e).__name__, e)
        if not all(B.case.assume):
            continue
        envj = {k: repr(v) for k, v in B.env.items()}
        if exc is not None:
            return {'status': 'sample-exception', 'detail': exc, 'env': envj, 'seed': seed}
        for o in B.case.obs:
            v, det = concrete_violated(o)
            if v:
                return {'status': 'sample-violation', 'obligation': o.name, 'detail': det, 'env': envj, 'seed': seed}
    return {'status': 'sample-clean'}


# ----------------------------------------------------------------------------------------
# known findings
def load_known():
    p = os.path.join(VERIF, 'known_findings.json')
    if not os.path.exists(p):
        return []
    return json.load(open(p)).get('entries', [])


class _SymEnv(dict):
    def __missing__(self, k):
        return P(tm.var(k))


def _eval_when(expr, obname, env=None, symbolic=False):
    m = re.search(r'\[(\d+)', obname)
    i = int(m.group(1)) if m else None
    e = _SymEnv() if symbolic else dict(env)
    return eval(expr, {'__builtins__': {}, 'abs': abs, 'min': min, 'max': max, 'range': range, 'len': len}, {'env': e, 'i': i})


def nice_model(goal, assume, B, timeout_ms):
    """re-solve asking for values on a coarse dyadic grid (k/8) so that the float conversion is exact"""
    from . import prove
    import z3
    names = tm.variables([goal] + list(assume))
    if len(names) > 40:
        return None
    extra = []
    for n in names:
        k = tm.var('nice!' + n)
        extra.append(tm.eq(tm.var(n), tm.mul(k, tm.const(Fraction(1, 8)))))
    roots = [goal] + list(assume) + extra
    A = list(assume) + extra + prove.definedness(roots)
    z = prove.Z()
    g = z(goal)
    s = z3.Solver()
    s.set('timeout', int(min(timeout_ms, 20000)))
    for a in [z(a) for a in A] + z.side:
        s.add(a)
    for n in names:
        s.add(z3.IsInt(z3.Real('nice!' + n)))
    s.add(z3.Not(g))
    r = prove._check(s, min(timeout_ms, 20000))
    if r == z3.sat:
        return prove.Result('cex', env=prove.model_to_env(s.model(), names))
    return None


def match_known(pid, cfg, orec, known):
    """an entry matches when property, every listed cfg key/value and the obligation-name regex
    agree, and (optional) its `when` expression over the model values holds"""
    for e in known:
        if e.get('property') != pid or e.get('status') != 'finding':
            continue
        m = e.get('match', {})
        if any((cfg.get(k) not in v) if isinstance(v, list) else (cfg.get(k) != v) for k, v in m.get('cfg', {}).items()):
            continue
        if 'obligation' in m and not re.search(m['obligation'], orec['name']):
            continue
        if 'when' in m:
            env = {k: float(Fraction(v)) if isinstance(v, str) else v for k, v in orec.get('env', {}).items()}
            try:
                if not _eval_when(m['when'], orec['name'], env):
                    continue
            except Exception:
                continue
        return e
    return None


# ----------------------------------------------------------------------------------------
def _worker(args):
    pid, cfg, tier, seed = args
    cov = os.environ.get('VT_COVER')
    if not cov:
        return run_config_symbolic(pid, cfg, tier, seed)
    # development aid: which flowdyn lines were executed symbolically by this configuration (tools/cover_report.py)
    from . import loader
    root = os.path.join(loader.REPO, 'flowdyn')
    seen = set()

    def local(frame, event, arg):
        if event == 'line':
            seen.add((frame.f_code.co_filename, frame.f_lineno))
        return local

    def tracer(frame, event, arg):
        if frame.f_code.co_filename.startswith(root):
            seen.add((frame.f_code.co_filename, frame.f_lineno))
            return local
        return None
    sys.settrace(tracer)
    try:
        return run_config_symbolic(pid, cfg, tier, seed)
    finally:
        sys.settrace(None)
        os.makedirs(cov, exist_ok=True)
        import hashlib
        h = hashlib.sha1(cfg_key(cfg).encode()).hexdigest()[:12]
        with open(os.path.join(cov, '%s-%s.json' % (pid, h)), 'w') as f:
            json.dump(sorted([os.path.relpath(a, loader.REPO), b] for a, b in seen), f)


def _child(conn, args):
    try:
        rec = _worker(args)
    except BaseException as e:      # noqa
        rec = {'cfg': args[1], 'obligations': [], 'error': 'worker crashed: %r' % (e,), 'notes': [], 'paths': 0,
               'stats': {}, 'wall_s': 0.0}
    try:
        conn.send(rec)
    finally:
        conn.close()


def run_pool(pid, cfgs, tier, seed, jobs, verbose=False):
    """one forked process per configuration, at most `jobs` at a time, each under a hard wall-clock budget
    (a configuration that exceeds it is reported inconclusive, never as success)"""
    import multiprocessing as mp
    ctxm = mp.get_context('fork')
    default_budget = 300 if tier == 'quick' else 1200
    pending = list(cfgs)
    running = []
    recs = []
    while pending or running:
        while pending and len(running) < max(1, jobs):
            cfg = pending.pop(0)
            parent, child = ctxm.Pipe(duplex=False)
            p = ctxm.Process(target=_child, args=(child, (pid, cfg, tier, seed)))
            p.start()
            child.close()
            running.append((p, parent, cfg, time.time(), cfg.get('budget_s', default_budget)))
        still = []
        for (p, conn, cfg, t0, budget) in running:
            rec = None
            if conn.poll(0):
                try:
                    rec = conn.recv()
                except EOFError:
                    rec = {'cfg': cfg, 'obligations': [], 'error': 'worker died', 'notes': [], 'paths': 0, 'stats': {},
                           'wall_s': time.time() - t0}
                p.join(5)
            elif not p.is_alive():
                rec = {'cfg': cfg, 'obligations': [], 'error': 'worker died (exit %s)' % p.exitcode, 'notes': [], 'paths': 0,
                       'stats': {}, 'wall_s': time.time() - t0}
            elif time.time() - t0 > budget:
                p.terminate()
                p.join(2)
                if p.is_alive():
                    p.kill()
                rec = {'cfg': cfg, 'obligations': [{'name': 'configuration-finished-within-budget', 'kind': 'true',
                                                    'verdict': 'unknown', 's': budget, 'size': 0, 'method': 'budget',
                                                    'note': 'wall-clock budget of %ds exceeded' % budget}],
                       'error': None, 'notes': [], 'paths': 0, 'stats': {}, 'wall_s': time.time() - t0}
            if rec is None:
                still.append((p, conn, cfg, t0, budget))
            else:
                conn.close()
                recs.append(rec)
                if verbose:
                    print('  done', cfg_key(rec['cfg'])[:110], '%.1fs' % rec['wall_s'], flush=True)
        running = still
        if running:
            time.sleep(0.05)
    return recs


def main(argv=None):
    import argparse
    ap = argparse.ArgumentParser()
    ap.add_argument('pid')
    ap.add_argument('--tier', default=os.environ.get('VERIF_TIER', 'quick'))
    ap.add_argument('--replay', default=None)
    ap.add_argument('--jobs', type=int, default=int(os.environ.get('VT_JOBS', '16')))
    ap.add_argument('--only', default=None, help='substring filter on the config key')
    ap.add_argument('-v', action='store_true')
    a = ap.parse_args(argv)
    seed = int(os.environ.get('VERIF_SEED', '0') or 0)
    if a.replay:
        case = json.load(open(a.replay))
        out = subprocess.run([REPLAY_PY, os.path.join(VERIF, 'vt', 'replay_main.py'), a.replay],
                             env=dict(os.environ, PYTHONPATH=VERIF))
        return out.returncode
    mod = load_prop(a.pid)
    t0 = time.time()
    cfgs = mod.configs(a.tier)
    if a.only:
        cfgs = [c for c in cfgs if all(s in cfg_key(c) for s in a.only.split(';'))]
    nfid = 0
    for c_ in cfgs:
        if nfid < int(os.environ.get('VT_FIDELITY', '3')) and not (c_.get('explore') or getattr(mod, 'EXPLORE', False)) and c_.get('domain') != 'fp':
            c_['_fidelity'] = True
            nfid += 1
    recs = run_pool(a.pid, cfgs, a.tier, seed, a.jobs, verbose=a.v)
    fidelity_compare(a.pid, recs)
    recs.sort(key=lambda r: cfg_key(r['cfg']))
    return report(mod, a.pid, a.tier, seed, recs, time.time() - t0, verbose=a.v, partial=bool(a.only))


def fidelity_compare(pid, recs):
    """translator validation: symbolic-run values vs real-build values at the same sampled point"""
    for r in recs:
        fid = r.get('fidelity')
        r['cfg'].pop('_fidelity', None)
        if not fid:
            continue
        case = {'property': pid, 'cfg': r['cfg'], 'env': fid['env'], 'mode': 'values'}
        d = os.path.join(OUT, 'replays')
        os.makedirs(d, exist_ok=True)
        pth = os.path.join(d, '%s-fidelity-%s.json' % (pid, hashlib.sha256(cfg_key(r['cfg']).encode()).hexdigest()[:10]))
        json.dump(case, open(pth, 'w'))
        try:
            out = subprocess.run([REPLAY_PY, os.path.join(VERIF, 'vt', 'replay_main.py'), pth], capture_output=True, text=True, timeout=600,
                                 env=dict(os.environ, PYTHONPATH=VERIF))
            last = [ln for ln in out.stdout.splitlines() if ln.startswith('REPLAY ')]
            real = {v[0]: v for v in json.loads(last[-1][7:]).get('values', [])} if last else {}
        except Exception as e:      # noqa
            real = {}
        n = 0
        worst = 0.0
        bad = []
        for name, a_, b_ in fid['values']:
            if name not in real:
                continue
            for x, y in ((a_, real[name][1]), (b_, real[name][2])):
                if not all(isinstance(z, (int, float)) for z in (x, y)) or any(z != z or abs(z) == float('inf') for z in (x, y)):
                    continue
                n += 1
                rel = abs(x - y) / max(1.0, abs(x), abs(y))
                worst = max(worst, rel)
                if rel > 1e-6:
                    bad.append([name, x, y])
        r['fidelity_result'] = {'values_compared': n, 'max_rel_diff': worst, 'mismatches': bad[:5], 'real_values_found': len(real)}
        r.pop('fidelity', None)
        try:
            os.unlink(pth)
        except OSError:
            pass


def report(mod, pid, tier, seed, recs, wall, verbose=False, partial=False):
    from . import loader
    known = load_known()
    counts = {'proved': 0, 'cex': 0, 'unknown': 0, 'searched': 0}
    violations = []
    known_hits = {}
    harness_errors = []
    inconclusive = []
    samples = []
    nontrivial = set()
    stats = {'queries': 0, 'unsat': 0, 'sat': 0, 'unknown': 0, 'solver_s': 0.0}
    paths = 0
    notes = []
    vac = 0
    xstats = {}
    fid = {'configs': 0, 'values_compared': 0, 'max_rel_diff': 0.0}
    nfallback = 0
    for r in recs:
        fr = r.get('fidelity_result')
        if fr:
            fid['configs'] += 1
            fid['values_compared'] += fr['values_compared']
            fid['max_rel_diff'] = max(fid['max_rel_diff'], fr['max_rel_diff'])
            if fr['mismatches']:
                harness_errors.append({'cfg': r['cfg'], 'error': 'translator validation mismatch (numpy model vs real numpy)', 'detail': fr['mismatches']})
        if r['error']:
            fb = sample_fallback(pid, r['cfg']) if nfallback < 6 else None
            nfallback += 1
            if fb is not None:
                # the symbolic run aborted, but the same harness executed concretely on the real build violates an obligation at a
                # reproducible point: a real failing input (found by the fallback, not by the solver - said so in the evidence)
                r['obligations'].append({'name': fb['obligation'], 'kind': 'fallback', 'verdict': 'cex', 's': 0.0, 'size': 0, 'method': 'concrete-fallback',
                                         'env': fb['env'], 'replay': fb['replay'],
                                         'note': 'symbolic execution of this configuration aborted (%s); concrete execution of the same harness '
                                                 'at a pseudo-random admissible point violates this obligation' % str(r['error']).splitlines()[0][:160]})
                notes.append('concrete fallback used for a configuration whose symbolic execution aborted')
            else:
                harness_errors.append({'cfg': r['cfg'], 'error': r['error']})
        for k in stats:
            stats[k] += r.get('stats', {}).get(k, 0)
        paths += r.get('paths', 0)
        for n in r.get('notes', []):
            if n not in notes:
                notes.append(n)
        vac += sum(1 for w in r.get('witness', []) if w == 'VACUOUS')
        lemmas_ok = all(o['verdict'] == 'proved' for o in r['obligations'] if o.get('meta', {}).get('lemma'))
        for o in r['obligations']:
            v = o['verdict']
            if v == 'searched' and not lemmas_ok:
                v = o['verdict'] = 'unknown'
                o['note'] = 'the lemma chain carrying the proof is incomplete in this run: searched for violations only'
            counts[v] = counts.get(v, 0) + 1
            if o.get('how') is None and v == 'proved':
                nontrivial.add(cfg_key(r['cfg']) + '|' + o['name'])
            if v == 'unknown':
                inconclusive.append({'cfg': r['cfg'], 'obligation': o['name'], 'note': o.get('note', '')})
            if v == 'known':
                for eid in o.get('known', []):
                    known_hits.setdefault(eid, []).append({'cfg': r['cfg'], 'obligation': o['name']})
            if v == 'cex':
                rep = o.get('replay', {})
                st = rep.get('status')
                if st in ('reproduced', 'reproduced-other'):
                    e = match_known(pid, r['cfg'], o, known)
                    if e is not None:
                        known_hits.setdefault(e['id'], []).append({'cfg': r['cfg'], 'obligation': o['name']})
                    else:
                        violations.append({'cfg': r['cfg'], 'obligation': o['name'], 'env': o.get('env'),
                                           'replay': rep})
                elif st == 'not-replayable':
                    inconclusive.append({'cfg': r['cfg'], 'obligation': o['name'],
                                         'note': 'model of an abstraction, not replayable'})
                else:
                    harness_errors.append({'cfg': r['cfg'], 'obligation': o['name'], 'replay': rep,
                                           'env': o.get('env')})
            if 'xcheck' in o:
                xc = o['xcheck'].get('verdict')
                xstats[xc] = xstats.get(xc, 0) + 1
            if len(samples) < 4 and 'text' in o and v == 'proved' and o.get('how') is None:
                samples.append({'cfg': r['cfg'], 'obligation': o['name'], 'goal': o['text'], 'verdict': v,
                                'seconds': o['s']})
    if not samples:
        for r in recs:
            for o in r['obligations'][:2]:
                samples.append({'cfg': r['cfg'], 'obligation': o['name'], 'verdict': o['verdict'],
                                'goal': o.get('text', '(term of %d nodes)' % o.get('size', 0))})
            if len(samples) >= 3:
                break
    if vac:
        harness_errors.append({'error': '%d case(s) with unsatisfiable assumptions (vacuous)' % vac})
    nob = sum(counts.values())
    for eid, hits in known_hits.items():
        e = [k for k in known if k['id'] == eid][0]
        print('KNOWN-FINDING: property=%s %s (%d obligation(s) matched, e.g. %s)' % (
            pid, e['what'], len(hits), hits[0]['obligation']))
    for inc in inconclusive[:30]:
        print('INCONCLUSIVE property=%s obligation=%s cfg=%s %s' % (pid, inc['obligation'], cfg_key(inc['cfg'])[:120], inc.get('note', '')))
    for v in violations[:20]:
        print('VIOLATION property=%s replay=%s' % (pid, v['replay'].get('path')))
        print('   obligation=%s cfg=%s detail=%s' % (v['obligation'], cfg_key(v['cfg'])[:160], json.dumps(v['replay'].get('detail'))[:300]))
    for h in harness_errors[:10]:
        print('HARNESS-ERROR property=%s %s' % (pid, json.dumps(h)[:1500]))
    ev = {
        'property_id': pid,
        'tier': tier if tier in ('quick', 'thorough') else 'quick',
        'seed': seed,
        'level': 'other',
        'coverage': {
            'explanation': 'Bounded SMT verification of the real code: the listed flowdyn functions were executed '
                           'symbolically from /repo (numpy model, term DAG), the property was asserted over the '
                           'resulting terms and z3 decided each obligation for ALL values of the symbolic inputs '
                           'within the stated bounds; counterexamples are replayed on the real build before being '
                           'reported. ' + getattr(mod, 'EXPLANATION', ''),
            'functions_encoded': getattr(mod, 'FUNCTIONS', []),
            'source_sha256_16': loader.source_hashes(),
            'bounds': getattr(mod, 'BOUNDS', ''),
            'outside_claim': getattr(mod, 'OUTSIDE', ''),
            'configurations': len(recs),
            'paths_explored': paths,
            'obligations': nob,
            'discharged': counts.get('proved', 0),
            'discharged_syntactically': nob - len(nontrivial) - counts.get('cex', 0) - counts.get('unknown', 0),
            'inconclusive': len(inconclusive),
            'searched_only_proved_through_lemma_chain': counts.get('searched', 0),
            'inconclusive_list': inconclusive[:40],
            'counterexamples_replayed': counts.get('cex', 0),
            'known_findings_matched': {k: len(v) for k, v in known_hits.items()},
            'queries': {k: stats[k] for k in ('queries', 'unsat', 'sat', 'unknown')},
            'cross_check_z3_4_8_12': xstats,
            'translator_validation': dict(fid, what='values of the traced terms (numpy model) vs values computed by the same harness on the real numpy and the real flowdyn build, at a sampled admissible point; relative tolerance 1e-6'),
            'solver_seconds': round(stats['solver_s'], 2),
            'evaluations': max(nob, 1),
            'distinct_nontrivial': len(nontrivial),
            'rule': 'one evaluation = one proof obligation (config x obligation name); non-trivial = needed a '
                    'solver query (not closed by term identity); distinct by (config, obligation name)',
            'samples': samples[:4],
            'model_notes': notes,
            'solver': 'z3 %s (python API), QF_NRA over exact reals unless stated' % _z3version(),
            'trusted_base': ['vt/npshim.py numpy model', 'vt/term.py rewrites', 'z3', 'stencil-locality / induction arguments stated in DESIGN.md'],
        },
        'assumptions': list(getattr(mod, 'ASSUMPTIONS', [])) + notes,
        'wall_s': round(wall, 2),
        'violations': len(violations),
    }
    if hasattr(mod, 'evidence_extra'):
        ev['coverage'].update(mod.evidence_extra(recs))
    os.makedirs(os.path.join(OUT, 'evidence'), exist_ok=True)
    # a filtered run (--only, a development aid) never overwrites the evidence of the registered commands
    sfx = '.partial' if partial else ''
    with open(os.path.join(OUT, 'evidence', pid + sfx + '.json'), 'w') as f:
        json.dump(ev, f, indent=1, sort_keys=True, default=str)
    with open(os.path.join(OUT, 'evidence', pid + sfx + '.' + tier + '.detail.json'), 'w') as f:
        json.dump(recs, f, indent=0, default=str)
    print('%s %s: %d configs, %d obligations: %d proved (%d by solver), %d inconclusive, %d cex (%d known), '
          '%d queries, solver %.1fs, wall %.1fs' % (pid, tier, len(recs), nob, counts.get('proved', 0), len(nontrivial),
                                                    len(inconclusive), counts.get('cex', 0),
                                                    sum(len(v) for v in known_hits.values()),
                                                    stats['queries'], stats['solver_s'], wall))
    if violations:
        return 1
    if harness_errors:
        return 3
    return 0


def _z3version():
    try:
        import z3
        return z3.get_version_string()
    except Exception:
        return '?'
