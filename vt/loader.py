"""Import the real flowdyn modules from /repo's working tree with `numpy` bound to the
numpy model (vt.npshim) and matplotlib stubbed.  Nothing in /repo is edited."""
import os
import sys
import types
import hashlib
import importlib

REPO = os.environ.get('FLOWDYN_REPO', '/repo')

MODULES = ['flowdyn._data', 'flowdyn.meshbase', 'flowdyn.mesh', 'flowdyn.mesh2d', 'flowdyn.field',
           'flowdyn.monitors', 'flowdyn.xnum', 'flowdyn.modeldisc', 'flowdyn.integration',
           'flowdyn.modelphy.base', 'flowdyn.modelphy.convection', 'flowdyn.modelphy.burgers',
           'flowdyn.modelphy.shallowwater', 'flowdyn.modelphy.euler']


def _stub_matplotlib():
    if 'matplotlib.pyplot' in sys.modules and not getattr(sys.modules['matplotlib'], '_vt_stub', False):
        return
    m = types.ModuleType('matplotlib')
    mp = types.ModuleType('matplotlib.pyplot')
    m.pyplot = mp
    m._vt_stub = True
    sys.modules['matplotlib'] = m
    sys.modules['matplotlib.pyplot'] = mp


class NS:
    """namespace of the freshly imported flowdyn modules"""
    pass


def fresh(symbolic=True):
    """(re)import flowdyn from REPO.  symbolic=True: numpy := the model; False: real numpy."""
    for k in [k for k in sys.modules if k == 'flowdyn' or k.startswith('flowdyn.')]:
        del sys.modules[k]
    if REPO not in sys.path:
        sys.path.insert(0, REPO)
    import numpy as real_np
    import scipy.optimize  # noqa: F401  (must be imported with the real numpy)
    if symbolic:
        _stub_matplotlib()
        from . import npshim
        sys.modules['numpy'] = npshim.np
    else:
        try:
            import matplotlib  # noqa: F401
        except ImportError:
            _stub_matplotlib()
    try:
        ns = NS()
        for name in MODULES:
            mod = importlib.import_module(name)
            setattr(ns, name.split('.')[-1] if name != 'flowdyn.modelphy.base' else 'modelbase', mod)
        ns.data = ns._data
    finally:
        sys.modules['numpy'] = real_np
    ns.symbolic = symbolic
    return ns


def source_hashes(files=None):
    """sha256 (first 16 hex) of the flowdyn sources the encoding was regenerated from"""
    out = {}
    root = os.path.join(REPO, 'flowdyn')
    for dp, dn, fn in os.walk(root):
        for f in sorted(fn):
            if f.endswith('.py'):
                p = os.path.join(dp, f)
                rel = os.path.relpath(p, REPO)
                if files and rel not in files:
                    continue
                out[rel] = hashlib.sha256(open(p, 'rb').read()).hexdigest()[:16]
    return out
