"""vt: solver-based checking of the real flowdyn code (see /verif/DESIGN.md)"""
