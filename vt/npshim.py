"""The numpy model.

`np` (a module object) is bound to the name `numpy` while the real flowdyn modules are
imported (vt.loader).  Arrays are real numpy ndarrays of dtype object (subclass SymArray)
whose cells hold symbolic scalars (vt.sym.P) or plain numbers, so slicing, fancy indexing,
assignment, broadcasting, copy, repeat, append, vstack, diag ... are numpy's own code.
Only *value-level* operations are modelled here:

  ufuncs  (+ - * / neg abs ** sqrt minimum maximum sign log comparisons logical ops)
          -> term constructors, elementwise, through the __array_ufunc__ protocol
  where / sum / min / max / average / einsum('ij,ij->j') -> ite terms / folds
  zeros / ones / zeros_like / full_like / linspace -> object arrays, exact values
  linalg.solve(M, b) -> fresh vector x with side constraint M.x = b
  cos / sin of a symbolic angle -> fresh pair (c, s) with c^2 + s^2 = 1

Anything not modelled is forwarded to real numpy when all its arguments are concrete and
raises UnsupportedOp otherwise (never silently concretised).
"""
import operator as op
import types
import math
from fractions import Fraction
import numpy as _np

from . import term as tm
from . import ctx as _ctx
from .sym import P, PB, L, isP, Concretised


class UnsupportedOp(NotImplementedError):
    pass


def _issym(x):
    return isinstance(x, (P, PB))


def anysym(*xs):
    for x in xs:
        if _issym(x):
            return True
        if isinstance(x, _np.ndarray):
            if x.dtype == object:
                return True
        elif isinstance(x, (list, tuple)) and anysym(*x):
            return True
    return False


# ----------------------------------------------------------------------------------------
# scalar kernels
def _num(x):
    """python number for a concrete scalar"""
    if isinstance(x, (_np.generic,)):
        return x.item()
    return x


def _pow(a, b):
    if isinstance(a, P):
        return a ** b
    if isinstance(b, P):
        if b.t.op == 'const':
            if isinstance(a, (int, Fraction)) or float(a) == int(a):
                return P(tm.const(a)) ** b
            return P(tm.const(a)) ** b
        raise UnsupportedOp('constant ** symbolic exponent')
    return _num(a) ** _num(b)


def _sqrt(x):
    if isinstance(x, P):
        if tm.MODE == 'fp':
            return P(tm.mk('sqrt', x.t))
        return P(tm.mk('sqrt', x.t))
    return math.sqrt(x) if x >= 0 else float('nan')


def _mn(a, b):
    if _issym(a) or _issym(b):
        return P(tm.mk('min', L(a), L(b)))
    return min(_num(a), _num(b))


def _mx(a, b):
    if _issym(a) or _issym(b):
        return P(tm.mk('max', L(a), L(b)))
    return max(_num(a), _num(b))


def _sign(x):
    if isinstance(x, P):
        return P(tm.mk('sign', x.t))
    x = _num(x)
    return float((x > 0) - (x < 0))


def _log(x):
    if isinstance(x, P):
        return P(tm.mk('log', x.t))
    return math.log(x)


def _angle_pair(x):
    c = _ctx.cur()
    key = ('angle', x.t.id)
    if key not in c.memo:
        cs, sn = c.fresh('cos'), c.fresh('sin')
        c.side.append(tm.eq(tm.add(tm.mul(cs, cs), tm.mul(sn, sn)), tm.ONE))
        c.note('cos/sin of a symbolic angle modelled as a fresh pair (c,s) with c^2+s^2=1')
        c.memo[key] = (P(cs), P(sn))
    return c.memo[key]


def _cos(x):
    return _angle_pair(x)[0] if isinstance(x, P) else math.cos(x)


def _sin(x):
    return _angle_pair(x)[1] if isinstance(x, P) else math.sin(x)


def _deg2rad(x):
    if isinstance(x, P):
        return P(tm.uf('deg2rad', x.t))
    return math.radians(x)


def _land(a, b):
    if _issym(a) or _issym(b):
        return (a if isinstance(a, PB) else PB(tm.const(bool(a)))) & (b if isinstance(b, PB) else PB(tm.const(bool(b))))
    return bool(a) and bool(b)


def _lor(a, b):
    if _issym(a) or _issym(b):
        return (a if isinstance(a, PB) else PB(tm.const(bool(a)))) | (b if isinstance(b, PB) else PB(tm.const(bool(b))))
    return bool(a) or bool(b)


def _lnot(a):
    return ~a if isinstance(a, PB) else (not a)


def _isnan(x):
    if _issym(x):
        return False
    return x != x


_UF = {
    _np.add: op.add, _np.subtract: op.sub, _np.multiply: op.mul, _np.true_divide: op.truediv,
    _np.negative: op.neg, _np.positive: op.pos, _np.absolute: abs, _np.fabs: abs, _np.power: _pow,
    _np.sqrt: _sqrt, _np.minimum: _mn, _np.maximum: _mx, _np.fmin: _mn, _np.fmax: _mx, _np.sign: _sign,
    _np.less: op.lt, _np.less_equal: op.le, _np.greater: op.gt, _np.greater_equal: op.ge,
    _np.equal: op.eq, _np.not_equal: op.ne, _np.log: _log, _np.square: lambda a: a * a,
    _np.logical_and: _land, _np.logical_or: _lor, _np.logical_not: _lnot,
    _np.bitwise_and: _land, _np.bitwise_or: _lor, _np.invert: _lnot,
    _np.cos: _cos, _np.sin: _sin, _np.deg2rad: _deg2rad, _np.radians: _deg2rad,
    _np.isnan: _isnan, _np.conjugate: lambda a: a,
}
_NIN = {}


def _ite(c, a, b):
    if isinstance(c, PB):
        return P(tm.mk('ite', c.t, L(a), L(b)))
    return a if c else b


def _clip(x, lo, hi):
    r = x
    if lo is not None:
        r = _mx(r, lo)
    if hi is not None:
        r = _mn(r, hi)
    return r


def _heaviside(x, h0):
    if _issym(x) or _issym(h0):
        return _ite(x < 0, 0.0, _ite(x > 0, 1.0, h0))
    x = _num(x)
    return 0.0 if x < 0 else (1.0 if x > 0 else h0)


def _cbrt(x):
    if isinstance(x, P):
        raise UnsupportedOp('cbrt of a symbolic value')
    return math.copysign(abs(x) ** (1.0 / 3.0), x)


_UF.update({
    _np.clip: _clip, _np.hypot: lambda a, b: _sqrt(a * a + b * b), _np.heaviside: _heaviside,
    _np.reciprocal: lambda a: 1 / a, _np.cbrt: _cbrt,
    # symbolic values range over the reals (finiteness is the definedness side of every query)
    _np.isfinite: lambda x: True if _issym(x) else math.isfinite(x),
    _np.isinf: lambda x: False if _issym(x) else math.isinf(x),
    _np.float_power: _pow,
})
if hasattr(_np, 'divide'):
    _UF[_np.divide] = op.truediv
for _modname in ('core', '_core'):
    _um = getattr(getattr(_np, _modname, None), 'umath', None)
    if _um is not None and hasattr(_um, 'clip'):
        _UF[_um.clip] = _clip


def _plain(x):
    """plain ndarray view / 0-d object box, so that frompyfunc never re-enters the protocol"""
    if isinstance(x, _np.ndarray):
        return x.view(_np.ndarray)
    if _issym(x):
        b = _np.empty((), dtype=object)
        b[()] = x
        return b
    return x


def _wrap(r):
    if isinstance(r, _np.ndarray):
        if r.dtype != object:
            r = r.astype(object)
        if r.ndim == 0:
            return r[()]
        return r.view(SymArray)
    return r


def _array_ufunc(ufunc, method, *inputs, out=None, **kw):
    if ufunc is _np.matmul and method == '__call__' and out is None:
        return _wrap(_np.dot(_np.asarray(_plain(inputs[0]), dtype=object), _np.asarray(_plain(inputs[1]), dtype=object)))
    if ufunc not in _UF:
        raise UnsupportedOp('ufunc %s not modelled' % ufunc.__name__)
    f = _UF[ufunc]
    if method == '__call__':
        kw.pop('casting', None); kw.pop('dtype', None); kw.pop('order', None); kw.pop('subok', None)
        where = kw.pop('where', True)
        if kw or where is not True:
            raise UnsupportedOp('ufunc kwargs %r' % (kw,))
        ins = [_plain(x) for x in inputs]
        r = _np.frompyfunc(f, len(ins), 1)(*ins)
        if out is not None:
            o = out[0]
            o.view(_np.ndarray)[...] = r
            return o
        return _wrap(r)
    if method == 'reduce':
        a = _plain(inputs[0])
        axis = kw.get('axis', 0)
        if kw.get('keepdims') or kw.get('where', True) is not True:
            raise UnsupportedOp('reduce kwargs')
        initial = kw.get('initial', None)
        return _wrap(_reduce(f, a, axis, initial))
    if method == 'accumulate':
        a = _np.asarray(_plain(inputs[0]), dtype=object)
        if a.ndim != 1 or kw.get('axis', 0) not in (0, -1):
            raise UnsupportedOp('accumulate on ndim != 1')
        out_ = _np.empty(a.shape, dtype=object)
        acc = None
        for k in range(a.shape[0]):
            acc = a[k] if acc is None else f(acc, a[k])
            out_[k] = acc
        return _wrap(out_)
    raise UnsupportedOp('ufunc method %s' % method)


def _reduce(f, a, axis, initial=None):
    a = _np.asarray(a, dtype=object) if not isinstance(a, _np.ndarray) else a
    if axis is None or a.ndim == 1 or (isinstance(axis, tuple) and len(axis) == a.ndim):
        it = list(a.flat)
        if initial is not None:
            it = [initial] + it
        if not it:
            if f is op.add:
                return 0.0
            raise ValueError('reduction of empty array')
        r = it[0]
        for x in it[1:]:
            r = f(r, x)
        return r
    if isinstance(axis, tuple):
        raise UnsupportedOp('multi-axis reduce')
    b = _np.moveaxis(a, axis, 0)
    r = b[0].copy() if initial is None else _np.frompyfunc(f, 2, 1)(_plain(initial), b[0])
    for k in range(1, b.shape[0]):
        r = _np.frompyfunc(f, 2, 1)(r, b[k])
    return r


P.__array_ufunc__ = lambda self, ufunc, method, *inputs, **kw: _array_ufunc(ufunc, method, *inputs, **kw)
PB.__array_ufunc__ = lambda self, ufunc, method, *inputs, **kw: _array_ufunc(ufunc, method, *inputs, **kw)
P.sqrt = lambda self: _sqrt(self)
P.log = lambda self: _log(self)


class SymArray(_np.ndarray):
    """object ndarray whose ufuncs are evaluated elementwise by the scalar kernels above"""

    def __array_finalize__(self, obj):
        pass

    def __array_ufunc__(self, ufunc, method, *inputs, out=None, **kw):
        return _array_ufunc(ufunc, method, *inputs, out=out, **kw)

    def __bool__(self):
        if self.size == 1:
            return bool(self.flat[0])
        raise ValueError('truth value of a symbolic array')

    # numpy's own min/max/sum on object arrays would call bool() on comparisons
    def min(self, axis=None, **kw):
        return amin(self, axis=axis)

    def max(self, axis=None, **kw):
        return amax(self, axis=axis)

    def sum(self, axis=None, **kw):
        return asum(self, axis=axis)

    def __float__(self):
        if self.size == 1:
            return float(self.flat[0])
        raise TypeError('only size-1 arrays')

    def astype(self, dtype, *a, **k):
        # doubles are modelled by exact reals: a conversion to a float type keeps the symbolic entries
        if dtype in (float, _np.float64, _np.double, object, 'float', 'float64', 'd', 'f8'):
            return self.copy()
        return _np.ndarray.astype(self, dtype, *a, **k)


def sa(x):
    """object SymArray from any nested sequence / array / scalar"""
    if isinstance(x, SymArray):
        return x
    if isinstance(x, _np.ndarray):
        return x.astype(object).view(SymArray)
    return _np.array(x, dtype=object).view(SymArray)


def symarr(name, shape):
    """array of fresh solver variables name_i[_j]"""
    if isinstance(shape, int):
        shape = (shape,)
    a = _np.empty(shape, dtype=object)
    for idx in _np.ndindex(*shape):
        a[idx] = P(tm.var(name + '_' + '_'.join(map(str, idx))))
    return a.view(SymArray)


def arr(*xs):
    a = _np.empty(len(xs), dtype=object)
    for i, x in enumerate(xs):
        a[i] = x
    return a.view(SymArray)


# ----------------------------------------------------------------------------------------
# the module object bound to the name `numpy` inside flowdyn
class _Shim(types.ModuleType):
    def __getattr__(self, n):
        return getattr(_np, n)


np = _Shim('numpy')
np.__dict__['_vt_shim'] = True
np.ndarray = _np.ndarray


def _ozeros(shape, fill=0.0):
    if isinstance(shape, _np.ndarray):
        shape = tuple(int(s) for s in shape)
    a = _np.empty(shape, dtype=object)
    a[...] = fill
    return a.view(SymArray)


def zeros(shape, dtype=None, **kw):
    if dtype is not None and dtype is not float and dtype is not _np.float64 and dtype is not object:
        return _np.zeros(shape, dtype)
    return _ozeros(shape, 0.0)


def ones(shape, dtype=None, **kw):
    if dtype is not None and dtype is not float and dtype is not _np.float64 and dtype is not object:
        return _np.ones(shape, dtype)
    return _ozeros(shape, 1.0)


def zeros_like(a, dtype=None, **kw):
    return _ozeros(_np.shape(a), 0.0)


def ones_like(a, dtype=None, **kw):
    return _ozeros(_np.shape(a), 1.0)


def empty_like(a, dtype=None, **kw):
    if anysym(a) or dtype in (None, float, _np.float64, object):
        return _ozeros(_np.shape(a))
    return _np.empty_like(a, dtype=dtype, **kw)


def full_like(a, fill, **kw):
    r = _np.empty(_np.shape(a), dtype=object)
    r[...] = sa(fill) if isinstance(fill, (list, tuple)) else fill
    return r.view(SymArray)


def full(shape, fill, dtype=None, **kw):
    if anysym(fill) or dtype in (float, _np.float64, object) or (dtype is None and isinstance(fill, (float, _np.floating))):
        if isinstance(shape, (int, _np.integer)):
            shape = (int(shape),)
        r = _np.empty(tuple(shape), dtype=object)
        r[...] = sa(fill) if isinstance(fill, (list, tuple)) else fill
        return r.view(SymArray)
    return _np.full(shape, fill, dtype=dtype, **kw)


def empty(shape, dtype=None, **kw):
    if dtype is not None and dtype is not float and dtype is not _np.float64 and dtype is not object:
        return _np.empty(shape, dtype)
    return _ozeros(shape, 0.0)


def linspace(start, stop, num=50, endpoint=True, **kw):
    if kw:
        raise UnsupportedOp('linspace kwargs %r' % kw)
    num = int(num)
    div = (num - 1) if endpoint else num
    out = _np.empty(num, dtype=object)
    if not anysym(start, stop):
        # concrete: numpy's own values (floats), kept in an object array so that symbolic
        # values can be stored into it later
        out[...] = [float(v) for v in _np.linspace(start, stop, num, endpoint=endpoint)]
        return out.view(SymArray)
    for i in range(num):
        if endpoint and i == num - 1 and num > 1:
            out[i] = stop + 0
        elif div > 0:
            out[i] = start + (stop - start) * Fraction(i, div)
        else:
            out[i] = start + 0
    return out.view(SymArray)


def where(c, a=None, b=None):
    if a is None and b is None:
        if anysym(c):
            raise UnsupportedOp('where(cond) with symbolic cond')
        return _np.where(c)
    if not anysym(c, a, b):
        return _np.where(c, a, b)
    fork = _ctx.cur().fork_where

    def f(c, a, b):
        if isinstance(c, PB):
            if c.t.op == 'bconst':
                return a if c.t.v else b
            if fork:
                return a if bool(c) else b
            return P(tm.mk('ite', c.t, L(a), L(b)))
        return a if c else b
    r = _np.frompyfunc(f, 3, 1)(*[_plain(x) for x in (c, a, b)])
    return _wrap(r)


def asum(a, axis=None, **kw):
    if not anysym(a):
        return _np.sum(a, axis=axis, **kw)
    return _wrap(_reduce(op.add, _np.asarray(a, dtype=object), axis))


def amin(a, axis=None, **kw):
    if _issym(a):
        return a
    if not anysym(a):
        return _np.min(a, axis=axis, **kw)
    a = _np.asarray(a, dtype=object)
    if a.ndim == 0:
        return a[()]
    return _wrap(_reduce(_mn, a, axis))


def amax(a, axis=None, **kw):
    if _issym(a):
        return a
    if not anysym(a):
        return _np.max(a, axis=axis, **kw)
    a = _np.asarray(a, dtype=object)
    if a.ndim == 0:
        return a[()]
    return _wrap(_reduce(_mx, a, axis))


def average(a, axis=None, weights=None, **kw):
    if not anysym(a, weights):
        return _np.average(a, axis=axis, weights=weights, **kw)
    if axis is not None:
        raise UnsupportedOp('average with axis')
    a = sa(a)
    if weights is None:
        return asum(a) / a.size
    w = sa(weights)
    return asum(a * w) / asum(w)


def einsum(spec, *ops, **kw):
    if not anysym(*ops):
        return _np.einsum(spec, *ops, **kw)
    if spec.replace(' ', '') != 'ij,ij->j' or len(ops) != 2:
        raise UnsupportedOp('einsum %r' % spec)
    a, b = ops
    return asum(sa(a) * (b if isinstance(b, _np.ndarray) else sa(b)), axis=0)


def isnan(x):
    if not anysym(x):
        return _np.isnan(x)
    return _np.frompyfunc(_isnan, 1, 1)(_plain(x)).astype(bool)


def _any(x, *a, **k):
    if anysym(x):
        vals = list(_np.asarray(x, dtype=object).flat)
        if all(not _issym(v) for v in vals):
            return any(bool(v) for v in vals)
        r = PB(tm.FALSE)
        for v in vals:
            r = _lor(r, v)
        return r
    return _np.any(x, *a, **k)


def _all(x, *a, **k):
    if anysym(x):
        vals = list(_np.asarray(x, dtype=object).flat)
        if all(not _issym(v) for v in vals):
            return all(bool(v) for v in vals)
        r = PB(tm.TRUE)
        for v in vals:
            r = _land(r, v)
        return r
    return _np.all(x, *a, **k)


def _scalar_or_ufunc(uf):
    def g(*a, **k):
        return uf(*a, **k)
    g.__name__ = uf.__name__
    return g


class _Linalg(types.ModuleType):
    def __getattr__(self, n):
        return getattr(_np.linalg, n)


linalg = _Linalg('numpy.linalg')


def solve(M, b):
    """model of numpy.linalg.solve: a fresh vector x constrained by M.x = b.
    (numpy returns *the* solution when M is regular; regularity is an assumption listed in
    the evidence, it is not needed for the constraint itself to be a true fact about x)"""
    if not anysym(M, b):
        return _np.linalg.solve(M, b)
    c = _ctx.cur()
    M = sa(M)
    b = sa(b)
    n = M.shape[0]
    if b.ndim != 1 or M.shape != (n, n) or b.shape[0] != n:
        raise UnsupportedOp('linalg.solve shapes')
    # function consistency: the same system (identical terms) solved again returns the same vector
    key = ('linsolve', tuple(L(v).id for v in M.flat), tuple(L(v).id for v in b.flat))
    if key in c.memo:
        return c.memo[key].copy().view(SymArray)
    if n <= c.memo.get('cramer_max', 0):
        # closed form (Cramer) for small regular systems: the exact value numpy.linalg.solve approximates
        def det(rows):
            if len(rows) == 1:
                return rows[0][0]
            r = tm.ZERO
            for j in range(len(rows)):
                if rows[0][j] is tm.ZERO:
                    continue
                t = tm.mul(rows[0][j], det([row[:j] + row[j + 1:] for row in rows[1:]]))
                r = tm.add(r, t) if j % 2 == 0 else tm.sub(r, t)
            return r
        rows = [[L(M[i, j]) for j in range(n)] for i in range(n)]
        d = det(rows)
        x = _np.empty(n, dtype=object)
        for k in range(n):
            rk = [[(L(b[i]) if j == k else rows[i][j]) for j in range(n)] for i in range(n)]
            x[k] = P(tm.div(det(rk), d))
        c.side.append(tm.ne(d, tm.ZERO))
        c.note('numpy.linalg.solve(M,b) for n<=%d modelled by its closed form (Cramer), M regular' % c.memo['cramer_max'])
        c.memo[key] = x
        return x.copy().view(SymArray)
    x = _np.empty(n, dtype=object)
    for i in range(n):
        x[i] = P(c.fresh('lin'))
    c.memo[key] = x
    for i in range(n):
        row = tm.ZERO
        for j in range(n):
            row = tm.add(row, tm.mul(L(M[i, j]), x[j].t))
        c.side.append(tm.eq(row, L(b[i])))
    if n <= 4:
        def det(rows):
            if len(rows) == 1:
                return rows[0][0]
            r = tm.ZERO
            for j in range(len(rows)):
                if rows[0][j] is tm.ZERO:
                    continue
                minor = [row[:j] + row[j + 1:] for row in rows[1:]]
                t = tm.mul(rows[0][j], det(minor))
                r = tm.add(r, t) if j % 2 == 0 else tm.sub(r, t)
            return r
        c.side.append(tm.ne(det([[L(M[i, j]) for j in range(n)] for i in range(n)]), tm.ZERO))
    c.note('numpy.linalg.solve(M,b) modelled as a fresh vector x with M.x = b (exact solve; M assumed regular: det(M) != 0 is a '
           'side constraint for n <= 4)')
    c.memo.setdefault('linsolves', []).append((M.copy(), b.copy(), x.copy()))
    return x.view(SymArray)


linalg.solve = solve

_FLOATS = (None, float, _np.float64, _np.double, object, 'float', 'float64', 'd', 'f8')


def _mk_array(real):
    def f(x, dtype=None, *a, **k):
        try:
            isf = dtype in _FLOATS
        except TypeError:
            isf = False
        if isf and anysym(x):
            r = sa(x)
            return r.copy() if (real is _np.array and k.get('copy', True)) else r
        return real(x, dtype, *a, **k) if dtype is not None else real(x, *a, **k)
    f.__name__ = real.__name__
    return f


array = _mk_array(_np.array)
asarray = _mk_array(_np.asarray)
ascontiguousarray = _mk_array(_np.ascontiguousarray)
asanyarray = _mk_array(_np.asanyarray)


def select(condlist, choicelist, default=0):
    r = default
    for c, v in reversed(list(zip(condlist, choicelist))):
        r = where(c, v, r)
    return r


def isclose(a, b, rtol=1e-05, atol=1e-08, equal_nan=False):
    if anysym(a, b):
        return abs(a - b) <= atol + rtol * abs(b)
    return _np.isclose(a, b, rtol, atol, equal_nan)


def allclose(a, b, rtol=1e-05, atol=1e-08, equal_nan=False):
    if anysym(a, b):
        return _all(isclose(a, b, rtol, atol))
    return _np.allclose(a, b, rtol, atol, equal_nan)


def nan_to_num(x, *a, **k):
    return x if anysym(x) else _np.nan_to_num(x, *a, **k)


def gradient(f, *varargs, axis=None, edge_order=1):
    """numpy.gradient for 1-D data (numpy's own code allocates a float output): unit, scalar or coordinate spacing"""
    if not anysym(f, *varargs):
        return _np.gradient(f, *varargs, axis=axis, edge_order=edge_order)
    f = sa(f)
    if f.ndim != 1 or edge_order != 1 or len(varargs) > 1 or f.shape[0] < 2:
        raise UnsupportedOp('gradient of symbolic data: only 1-D, edge_order=1')
    n = f.shape[0]
    out = _np.empty(n, dtype=object)
    if not varargs or _np.ndim(varargs[0]) == 0:
        h = varargs[0] if varargs else 1.0
        for i in range(1, n - 1):
            out[i] = (f[i + 1] - f[i - 1]) / (2 * h)
        out[0] = (f[1] - f[0]) / h
        out[n - 1] = (f[n - 1] - f[n - 2]) / h
    else:
        x = sa(varargs[0])
        d = [x[i + 1] - x[i] for i in range(n - 1)]
        for i in range(1, n - 1):
            hs, hd = d[i - 1], d[i]
            out[i] = (hs * hs * f[i + 1] + (hd * hd - hs * hs) * f[i] - hd * hd * f[i - 1]) / (hs * hd * (hd + hs))
        out[0] = (f[1] - f[0]) / d[0]
        out[n - 1] = (f[n - 1] - f[n - 2]) / d[n - 2]
    return out.view(SymArray)


def convolve(a, v, mode='full'):
    if not anysym(a, v):
        return _np.convolve(a, v, mode)
    a, v = sa(a), sa(v)
    if a.ndim != 1 or v.ndim != 1:
        raise UnsupportedOp('convolve: 1-D only')
    n, m = a.shape[0], v.shape[0]
    full = _np.empty(n + m - 1, dtype=object)
    for k in range(n + m - 1):
        acc = 0.0
        for i in range(max(0, k - m + 1), min(n, k + 1)):
            acc = acc + a[i] * v[k - i]
        full[k] = acc
    if mode == 'full':
        r = full
    elif mode == 'same':
        st = (min(n, m) - 1) // 2
        r = full[st:st + max(n, m)]
    elif mode == 'valid':
        r = full[min(n, m) - 1:max(n, m)]
    else:
        raise ValueError(mode)
    return r.view(SymArray)


def mean(a, axis=None, **kw):
    if not anysym(a):
        return _np.mean(a, axis=axis, **kw)
    a = sa(a)
    cnt = a.size if axis is None else a.shape[axis]
    return asum(a, axis=axis) / cnt


for _n, _f in dict(zeros=zeros, ones=ones, zeros_like=zeros_like, ones_like=ones_like, full_like=full_like,
                   empty=empty, linspace=linspace, where=where, sum=asum, min=amin, max=amax, amin=amin,
                   amax=amax, average=average, einsum=einsum, isnan=isnan, any=_any, all=_all,
                   linalg=linalg, array=array, asarray=asarray, ascontiguousarray=ascontiguousarray, asanyarray=asanyarray,
                   select=select, isclose=isclose, allclose=allclose, nan_to_num=nan_to_num, gradient=gradient, convolve=convolve,
                   mean=mean).items():
    setattr(np, _n, _f)
np.empty_like = empty_like
np.full = full
