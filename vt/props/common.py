"""helpers shared by the property harnesses (work in symbolic and concrete mode)"""
from fractions import Fraction

GAMMAS_QUICK = ['2', '7/5']
GAMMAS_ALL = ['2', '7/5', '5/3']


def sqrt(B, x):
    return B.np.sqrt(x)


def euler_prim(B, tag, gamma, n, twod=False, moving=True):
    """admissible primitive Euler state arrays through the sqrt-friendly bijective
    parametrisation rho = a^2, p = rho c^2 / gamma  (a, c > 0): returns rho, u(or V), p, c"""
    a = B.vararray(tag + 'a', n, positive=True)
    c = B.vararray(tag + 'c', n, positive=True)
    rho = a * a
    p = rho * c * c / gamma
    if twod:
        V = B.vararray(tag + 'V', (2, n))
        return rho, V, p, c
    u = B.vararray(tag + 'u', n) if moving else B.array([B.const(0)] * n)
    return rho, u, p, c


def sw_prim(B, tag, g, n):
    """shallow water: h = c^2 / g  (c > 0)"""
    c = B.vararray(tag + 'c', n, positive=True)
    h = c * c / g
    u = B.vararray(tag + 'u', n)
    return h, u, c


def mono_faces(B, n, name='xf'):
    """n+1 strictly increasing faces x0 < x1 < ... (x_{i+1} = x_i + d_i, d_i > 0)"""
    x0 = B.var(name + '0', -1.0, 1.0)
    xs = [x0]
    for i in range(n):
        d = B.pos('%sd%d' % (name, i), 0.3, 1.5)
        xs.append(xs[-1] + d)
    return B.array(xs)


def mesh_with_faces(B, fd, xf):
    """a flowdyn mesh1d whose faces are the given (symbolic) monotone array: built by the real
    constructor, then faces/centres/length replaced the way refinedmesh/morphedmesh do"""
    n = len(xf) - 1
    me = fd.mesh.mesh1d(ncell=n, length=xf[n] - xf[0])
    me.xf = xf
    me.xc = me.calc_centers()
    return me
