"""helpers shared by the property harnesses (work in symbolic and concrete mode)"""
from fractions import Fraction

GAMMAS_QUICK = ['2', '7/5']
GAMMAS_ALL = ['2', '7/5', '5/3']


def sqrt(B, x):
    return B.np.sqrt(x)


def euler_prim(B, tag, gamma, n, twod=False, moving=True):
    """admissible primitive Euler state arrays through the sqrt-friendly bijective
    parametrisation rho = a^2, p = rho c^2 / gamma  (a, c > 0): returns rho, u(or V), p, c"""
    a = B.vararray(tag + 'a', n, positive=True)
    c = B.vararray(tag + 'c', n, positive=True)
    rho = a * a
    p = rho * c * c / gamma
    if twod:
        V = B.vararray(tag + 'V', (2, n))
        return rho, V, p, c
    u = B.vararray(tag + 'u', n) if moving else B.array([B.const(0)] * n)
    return rho, u, p, c


def sw_prim(B, tag, g, n):
    """shallow water: h = c^2 / g  (c > 0)"""
    c = B.vararray(tag + 'c', n, positive=True)
    h = c * c / g
    u = B.vararray(tag + 'u', n)
    return h, u, c


def mono_faces(B, n, name='xf'):
    """n+1 strictly increasing faces x0 < x1 < ... (x_{i+1} = x_i + d_i, d_i > 0)"""
    x0 = B.var(name + '0', -1.0, 1.0)
    xs = [x0]
    for i in range(n):
        d = B.pos('%sd%d' % (name, i), 0.3, 1.5)
        xs.append(xs[-1] + d)
    return B.array(xs)


def mesh_with_faces(B, fd, xf):
    """a flowdyn 1D mesh whose faces are the given (symbolic) monotone array, built through the public constructor for
    non-uniform meshes: morphedmesh with a morphing that maps the uniform faces onto xf (every monotone face array is the image
    of the uniform one under some monotone map). Nothing is patched by hand, so whatever the constructors derive from the
    faces (centres, length, sizes) is derived by the real code."""
    n = len(xf) - 1
    return fd.mesh.morphedmesh(ncell=n, length=xf[n] - xf[0], x0=xf[0], morph=lambda x: xf)


# ----------------------------------------------------------------------------------------
# 1D discretisation builder (both modes)
NUMS_LINEAR = ['extrapol1', 'extrapol2', 'extrapol3', 'extrapolk', 'centered', 'fromm', 'quick']
LIMITERS = ['minmod', 'vanalbada', 'vanleer', 'superbee']
NUMS_ALL = NUMS_LINEAR + ['muscl:' + l for l in LIMITERS]
FLUXES = {'convection': [None], 'burgers': [None], 'shallowwater': ['centered', 'rusanov', 'hll'],
          'euler1d': ['centered', 'centeredmassflow', 'hlle', 'hllc'], 'nozzle': ['hlle', 'hllc']}


def make_num(B, fd, name):
    num = _make_num(B, fd, name)
    # other scheme objects are created AFTER the one under test (a program that compares schemes does that): nothing an instance
    # holds may live on the class or the module
    xn = fd.xnum
    for other in (lambda: xn.extrapolk(B.const('7/10')), xn.extrapol1, xn.extrapol2, xn.centered, xn.extrapol3, lambda: xn.muscl(xn.superbee)):
        other()
    return num


def _make_num(B, fd, name):
    xn = fd.xnum
    if name == 'extrapolk':
        return xn.extrapolk(B.var('kappa', -1.0, 1.0))
    if name.startswith('muscl:'):
        return xn.muscl(getattr(xn, name.split(':')[1]))
    return getattr(xn, name)()


def mesh2d(B, fd, nx, ny, lx, ly):
    """the real 2D mesh, then OTHER mesh objects of other sizes (a grid-refinement study builds several meshes up front): what a
    mesh holds must not live on the class"""
    me = fd.mesh2d.mesh2d(nx, ny, lx, ly)
    fd.mesh2d.mesh2d(nx + 2, ny + 1, B.const(1), B.const(2))
    fd.mesh.unimesh(ncell=nx + 3, length=B.const(2))
    return me


def make_model(B, fd, cfg):
    model = _make_model(B, fd, cfg)
    # same for the models: the registries of boundary conditions / variables / fluxes are merged at construction time
    fd.euler.euler2d(gamma=B.const('5/3'))
    fd.euler.euler1d(gamma=B.const('5/3'))
    fd.shallowwater.shallowwater1d(g=B.const(3))
    fd.convection.model(B.const(-1))
    return model


def _make_model(B, fd, cfg):
    m = cfg['model']
    if m == 'convection':
        a = B.var('aconv', -2.0, 2.0)
        if cfg.get('speed') == 'pos':
            B.assume(a > 0)
        elif cfg.get('speed') == 'neg':
            B.assume(a < 0)
        return fd.convection.model(a)
    if m == 'burgers':
        return fd.burgers.model()
    if m == 'shallowwater':
        return fd.shallowwater.shallowwater1d(g=B.const(cfg.get('g', '981/100')))
    if m == 'euler1d':
        return fd.euler.euler1d(gamma=B.const(cfg.get('gamma', '2')))
    if m == 'euler2d':
        return fd.euler.euler2d(gamma=B.const(cfg.get('gamma', '2')))
    raise KeyError(m)


def make_mesh(B, fd, cfg, n):
    kind = cfg.get('mesh', 'faces')
    if kind == 'faces':
        return mesh_with_faces(B, fd, mono_faces(B, n))
    if kind == 'uniform':
        return fd.mesh.unimesh(ncell=n, length=B.pos('len', 0.5, 3.0))
    raise KeyError(kind)


def make_state(B, model_name, model, n, tag='w', gamma=None, g=None):
    """admissible primitive data + conservative data (through the real prim2cons)"""
    if model_name in ('convection', 'burgers'):
        q = B.vararray(tag + 'q', n)
        return [q], [q]
    if model_name == 'shallowwater':
        h, u, c = sw_prim(B, tag, model.g, n)
        prim = [h, u]
        return prim, model.prim2cons(prim)
    if model_name in ('euler1d', 'nozzle'):
        rho, u, p, c = euler_prim(B, tag, model.gamma, n)
        prim = [rho, u, p]
        return prim, model.prim2cons(prim)
    raise KeyError(model_name)


def make_bc(B, cfg, model_name):
    bc = cfg.get('bc', 'per')
    if bc == 'per':
        return {'type': 'per'}, {'type': 'per'}
    if bc == 'sym':
        return {'type': 'sym'}, {'type': 'sym'}
    if bc == 'open':
        # imposed-state boundaries: subsonic inlet / outlet for Euler, dirichlet elsewhere
        if model_name == 'euler1d':
            return ({'type': 'insub', 'ptot': B.pos('ptot', 3.0, 4.0), 'rttot': B.pos('rttot', 0.5, 3.0)},
                    {'type': 'outsub', 'p': B.pos('pout', 0.2, 1.0)})
        neq = {'convection': 1, 'burgers': 1, 'shallowwater': 2}[model_name]
        prm = [B.pos('dir%d' % k, 0.5, 2.0) for k in range(neq)]
        return {'type': 'dirichlet', 'prim': prm}, {'type': 'dirichlet', 'prim': list(prm)}
    raise KeyError(bc)


def build1d(B, cfg):
    fd = B.fd
    n = cfg.get('n', 4)
    model = make_model(B, fd, cfg)
    mesh = make_mesh(B, fd, cfg, n)
    num = make_num(B, fd, cfg.get('num', 'extrapol1'))
    bcL, bcR = make_bc(B, cfg, cfg['model'])
    rhs = fd.modeldisc.fvm(model, mesh, num, numflux=cfg.get('flux'), bcL=bcL, bcR=bcR)
    prim, cons = make_state(B, cfg['model'], model, n)
    field = fd.field.fdata(model, mesh, cons)
    _warm_up(B, cfg, lambda: rhs.rhs(fd.field.fdata(model, mesh, [c.copy() for c in make_state(B, cfg['model'], model, n, tag='dk')[1]])))
    return {'model': model, 'mesh': mesh, 'num': num, 'rhs': rhs, 'prim': prim, 'cons': cons, 'field': field, 'n': n}


def _warm_up(B, cfg, evaluate):
    """the operator object handed to the harness has already been evaluated once on ANOTHER admissible field at the same time
    (integrator stages, Jacobians, monitors and repeated solves all do that): anything the operator keeps between evaluations
    must not leak into the evaluation under test. Skipped for path-exploring configurations (it would square the path count)."""
    if cfg.get('explore') or cfg.get('warm') is False:
        return
    evaluate()


def cut(B, exprs, cut_arrays, prefix='F'):
    """symbolic mode: replace every distinct term occurring in cut_arrays by a fresh variable inside
    exprs (sound generalisation: a proof for arbitrary values of the cut terms covers the real ones);
    concrete mode: identity"""
    if not B.symbolic:
        return list(exprs)
    import numpy as _np
    from vt import term as tm
    from vt.sym import P, L
    mp = {}
    for a in cut_arrays:
        for x in _np.asarray(a, dtype=object).flat:
            t = L(x)
            if t.op in ('const', 'var'):
                continue
            if t.id not in mp:
                mp[t.id] = tm.var('%s!%d' % (prefix, len(mp)))
    ts = [L(e) for e in exprs]
    out = tm.subst(ts, mp)
    B.case.info['cut_terms'] = B.case.info.get('cut_terms', 0) + len(mp)
    return [P(t) for t in out]


# ----------------------------------------------------------------------------------------
# 2D builder
def build2d(B, cfg, source=None):
    fd = B.fd
    nx, ny = cfg['nx'], cfg['ny']
    model = fd.euler.euler2d(gamma=B.const(cfg.get('gamma', '2')), **({'source': source} if source is not None else {}))
    mesh = mesh2d(B, fd, nx, ny, B.pos('lx', 0.5, 3.0), B.pos('ly', 0.5, 3.0))
    num = fd.xnum.extrapol2d1() if cfg.get('num', 'extrapol2d1') == 'extrapol2d1' else \
        fd.xnum.extrapol2dk(B.var('kappa', -1.0, 1.0) if cfg.get('kappa', 'sym') == 'sym' else B.const(cfg['kappa']))
    bcs = cfg.get('bc2d', {'left': 'per', 'right': 'per', 'top': 'per', 'bottom': 'per'})
    # sides given the same specification share ONE dictionary object (the usual idiom: bc = {'type': 'sym'}; {tag: bc for tag in ...})
    shared = {}
    bclist = {}
    for k, v in bcs.items():
        key = v if isinstance(v, str) else id(v)
        if key not in shared:
            shared[key] = {'type': v} if isinstance(v, str) else dict(v)
        bclist[k] = shared[key]
    rhs = fd.modeldisc.fvm2dcart(model, mesh, num, bclist, numflux=cfg.get('flux', 'centered'))
    n = nx * ny
    rho, V, p, c = euler_prim(B, 'w', model.gamma, n, twod=True)
    prim = [rho, V, p]
    cons = model.prim2cons(prim)
    field = fd.field.fdata(model, mesh, cons)
    if source is None:
        _warm_up(B, cfg, lambda: rhs.rhs(fd.field.fdata(model, mesh, [2 * c for c in cons])))
    return {'model': model, 'mesh': mesh, 'num': num, 'rhs': rhs, 'prim': prim, 'cons': cons, 'field': field,
            'n': n, 'nx': nx, 'ny': ny}
