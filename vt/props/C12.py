"""C12 - slope limiters lie in the second-order TVD region."""
from fractions import Fraction

ID = 'C12'
FUNCTIONS = ['flowdyn.xnum.minmod', 'flowdyn.xnum.vanalbada', 'flowdyn.xnum.vanleer', 'flowdyn.xnum.superbee',
             'flowdyn.xnum.muscl.interp_face (argument order of the limiter calls)']
BOUNDS = ('binary64 (QF_FP, round-to-nearest-even): all finite pairs (a,b) with |a|,|b| in {0} U [1e-150, 1e150] - every sign '
          'combination, exact zeros, equal arguments, ratios up to 1e300; exact reals (QF_NRA): all (a,b) in R^2, all lambda > 0. '
          'Scalar and array call paths are both traced and must give the identical term.')
OUTSIDE = ('magnitudes outside [1e-150,1e150]; for the two smooth limiters the binary64 magnitude bounds are asserted with a relative '
           'slack of 4*2^-53 (one-ulp rounding of a value that is <= max over the reals) and r(a,a)=a / homogeneity are decided over '
           'the reals with the tolerance of their 1e-20 regularisation: |r(a,a)-a| <= |a|*max(1e-20/(2a^2), 1e-20/(2|a|)); the second '
           'term is below 1e-20/a^2 for |a|<=2 and below 2^-53 relative for |a|>=1e-4, so the float statement follows')
ASSUMPTIONS = ['numpy minimum/maximum/abs/sign/where on non-NaN doubles = fpMin/fpMax/fpAbs/sign/ite; a**2 = one rounded multiply']
EXPLANATION = 'The limiter source is executed on symbolic scalars; the same DAG is read over binary64 and over the reals.'
TECHNIQUE = ('symbolic execution of the real limiter functions into a term DAG; z3 QF_FP (binary64, RNE) and QF_NRA validity queries; '
             'counterexamples replayed on the real build')

LIMS = ['minmod', 'vanalbada', 'vanleer', 'superbee']
SMOOTH = ('vanalbada', 'vanleer')
FP_CLAUSES = ['zero', 'sign', 'bound', 'symmetric', 'odd', 'finite']
MAXF = 1.7976931348623157e308


def configs(tier):
    out = []
    for lim in LIMS:
        out.append({'domain': 'real', 'limiter': lim})
        out.append({'domain': 'real', 'limiter': lim, 'part': 'muscl-argument-order'})
        for cl in FP_CLAUSES:
            c = {'domain': 'fp', 'limiter': lim, 'clause': cl}
            hard = lim in SMOOTH and cl in ('bound', 'symmetric', 'odd')
            if tier == 'quick':
                c['timeout_ms'] = 60000 if not hard else 45000
                c['budget_s'] = 200
                out.append(c)
            elif not hard:
                c['timeout_ms'] = 600000
                c['budget_s'] = 1500
                out.append(c)
            else:
                # window splitting for the hard clauses of the smooth limiters (16 sub-boxes of the (|a|,|b|) plane)
                edges = ['1e-150', '1e-75', '1', '1e75', '1e150']
                for i in range(4):
                    for j in range(4):
                        out.append(dict(c, boxa=[edges[i], edges[i + 1]], boxb=[edges[j], edges[j + 1]], timeout_ms=1500000,
                                        budget_s=1800))
    return out


def harness(cfg, B):
    fd = B.fd
    np = B.np
    lim = getattr(fd.xnum, cfg['limiter'])
    smooth = cfg['limiter'] in SMOOTH
    if cfg.get('part') == 'muscl-argument-order':
        return _muscl_order(cfg, B)
    a, b = B.var('a'), B.var('b')
    r = lim(a, b)
    # the array path is the same elementwise computation
    ra = lim(B.array([a, b]), B.array([b, a]))
    rba = lim(b, a)
    if B.symbolic:
        from vt.sym import L
        B.ob('array-path=scalar-path', 'true', B.boolean(L(ra[0]) is L(r) and L(ra[1]) is L(rba)))
    else:
        same = lambda x, y: (x == y) or (x != x and y != y)
        B.ob('array-path=scalar-path', 'true', bool(same(float(ra[0]), float(r)) and same(float(ra[1]), float(rba))))
    rneg = lim(-a, -b)
    absa, absb = abs(a), abs(b)
    mn = np.minimum(absa, absb)
    mx = np.maximum(absa, absb)
    opposite = ((a > 0) & (b < 0)) | ((a < 0) & (b > 0)) | (a == 0) | (b == 0)
    if cfg['domain'] == 'fp':
        lo_a, hi_a = cfg.get('boxa', ['1e-150', '1e150'])
        lo_b, hi_b = cfg.get('boxb', ['1e-150', '1e150'])
        if 'boxa' in cfg:
            B.assume((absa >= float(lo_a)) & (absa <= float(hi_a)))
            B.assume((absb >= float(lo_b)) & (absb <= float(hi_b)))
        else:
            B.assume((a == 0) | ((absa >= 1e-150) & (absa <= 1e150)))
            B.assume((b == 0) | ((absb >= 1e-150) & (absb <= 1e150)))
        cl = cfg['clause']
        fin = abs(r) <= MAXF
        if cl == 'finite':
            B.ob('finite', 'true', fin)
        elif cl == 'zero':
            B.ob('zero-when-signs-differ-or-one-vanishes', 'true', _implies(B, opposite, r == 0))
        elif cl == 'sign':
            B.ob('zero-or-common-sign', 'true', (r == 0) | ((r > 0) & (a > 0) & (b > 0)) | ((r < 0) & (a < 0) & (b < 0)))
        elif cl == 'bound':
            slack = 1.0 + 4 * 2.0 ** -53 if smooth else 1.0
            B.ob('|r|<=2min', 'true', _implies(B, fin, abs(r) <= 2 * mn * slack))
            B.ob('|r|<=max', 'true', _implies(B, fin, abs(r) <= mx * slack))
        elif cl == 'symmetric':
            B.ob('r(a,b)=r(b,a)', 'true', _implies(B, fin, r == rba))
        elif cl == 'odd':
            B.ob('r(-a,-b)=-r(a,b)', 'true', _implies(B, fin, rneg == -r))
        return
    # ---- exact reals, all of R^2
    B.ob('zero-when-signs-differ-or-one-vanishes', 'true', _implies(B, opposite, r == 0))
    B.ob('zero-or-common-sign', 'true', (r == 0) | ((r > 0) & (a > 0) & (b > 0)) | ((r < 0) & (a < 0) & (b < 0)))
    rel = {'relative': True}
    B.ob('|r|<=2min', 'le', abs(r), 2 * mn, meta=rel)
    B.ob('|r|<=max', 'le', abs(r), mx, meta=rel)
    B.ob('r(a,b)=r(b,a)', 'eq', r, rba, meta=rel)
    B.ob('r(-a,-b)=-r(a,b)', 'eq', rneg, -r, meta=rel)
    lam = B.pos('lam', 0.1, 10.0)
    rl = lim(lam * a, lam * b)
    raa = lim(a, a)
    e = B.const(Fraction(1, 10 ** 20))
    if not smooth:
        B.ob('homogeneous', 'eq', rl, lam * r)
        B.ob('r(a,a)=a', 'eq', raa, a)
    else:
        big = [absa * absa >= B.const(Fraction(1, 10 ** 16)), absb * absb >= B.const(Fraction(1, 10 ** 16)), a * b > 0]
        # r0 = the limiter without its 1e-20 regularisation; r deviates from it by a relative eps/(a^2+b^2) (van Albada) /
        # eps/|a+b| (van Leer), and r0 is exactly homogeneous with r0(a,a)=a.  Homogeneity of r up to the sum of the two relative
        # deviations then follows by the triangle inequality (not re-proved by the solver).
        if cfg['limiter'] == 'vanalbada':
            r0 = a * b * (a + b) / (a * a + b * b)
            r0l = (lam * a) * (lam * b) * (lam * a + lam * b) / ((lam * a) * (lam * a) + (lam * b) * (lam * b))
            B.ob('deviation-from-unregularised-form', 'le', abs(r - r0) * (a * a + b * b), abs(r0) * e, assume=big, tol=1e-9, meta={'relative': True},
                 replayable=False)      # a 1e-20 relative deviation is below double precision: not confirmable by a float replay
        else:
            r0 = 2 * a * b / (a + b)
            r0l = 2 * (lam * a) * (lam * b) / (lam * a + lam * b)
            B.ob('deviation-from-unregularised-form', 'le', abs(r - r0) * abs(a + b), abs(r0) * e, assume=big, tol=1e-9, meta={'relative': True},
                 replayable=False)      # a 1e-20 relative deviation is below double precision: not confirmable by a float replay
        B.ob('unregularised-form-homogeneous', 'eq', r0l, lam * r0, assume=big)
        B.ob('unregularised-form(a,a)=a', 'eq', (a * a * (a + a) / (a * a + a * a)) if cfg['limiter'] == 'vanalbada' else (2 * a * a / (a + a)), a,
             assume=[absa * absa >= B.const(Fraction(1, 10 ** 16))])


def _implies(B, p, q):
    if B.symbolic:
        return (~p) | q
    return (not p) or bool(q)


def _muscl_order(cfg, B):
    """muscl calls the limiter with (downwind, upwind) one-sided gradients on the left side and the mirrored order on the
    right side: checked with a recording, deliberately non-symmetric limiter stub"""
    from . import common as cm
    fd = B.fd
    n = 4
    calls = []

    def stub(x, y):
        calls.append((x.copy(), y.copy()))
        return x * 0 + y * 0
    xf = cm.mono_faces(B, n)
    mesh = cm.mesh_with_faces(B, fd, xf)
    num = fd.xnum.muscl(stub)
    d = B.vararray('d', n)
    g = B.vararray('g', n + 1)
    num.interp_face(mesh, [d], [g])
    B.ob('two-limiter-calls', 'true', B.boolean(len(calls) == 2))
    if len(calls) != 2:
        return
    (x0, y0), (x1, y1) = calls
    # left state of face i+1 comes from cell i: downwind gradient = face i+1, upwind gradient = face i
    B.eq_arrays('left-state:first-arg=gradient-at-the-face-itself', x0, g[1:])
    B.eq_arrays('left-state:second-arg=gradient-at-the-opposite-face', y0, g[0:-1])
    B.eq_arrays('right-state:first-arg=gradient-at-the-face-itself', x1, g[0:-1])
    B.eq_arrays('right-state:second-arg=gradient-at-the-opposite-face', y1, g[1:])
