"""C17 - state conversions round-trip; named variables obey their definitions."""
from fractions import Fraction
from . import common as cm

ID = 'C17'
FUNCTIONS = ['flowdyn.modelphy.euler.euler.cons2prim', 'flowdyn.modelphy.euler.euler.prim2cons',
             'flowdyn.modelphy.euler.euler.{density,pressure,velocity,velocitymag,kinetic_energy,asound,mach,entropy,enthalpy,ptot,rttot,htot}',
             'flowdyn.modelphy.euler.euler1d.massflow', 'flowdyn.modelphy.euler.nozzle.massflow',
             'flowdyn.modelphy.euler.euler2d.{velocity_x,velocity_y,mach}',
             'flowdyn.modelphy.shallowwater.shallowwater1d.{cons2prim,prim2cons,height,massflow,velocity}',
             'flowdyn.modelphy.convection.model.{cons2prim,prim2cons,q}', 'flowdyn.modelphy.burgers.model.{cons2prim,prim2cons}',
             'flowdyn.modelphy.base.model.nameddata', 'flowdyn.field.fdata.phydata']
BOUNDS = ('n=3 cells (1D) / 3 cells of a 3x1 grid (2D) - the functions are elementwise; all admissible states '
          '(rho,p,h>0, any velocity / flow direction); gamma in {2, 7/5, 5/3} (quick: 2, 7/5); names iterated from '
          'the real list_var()')
OUTSIDE = 'float round-off; gamma other than the listed rationals; entropy/ptot compared with log/pow uninterpreted (congruence)'
ASSUMPTIONS = ['every division/sqrt occurring is defined (rho,p>0 guarantee it)',
               'mach = |V|/a is asserted as  mach >= 0 and mach^2 * (gamma p / rho) = |V|^2  (equivalent for a > 0)']
EXPLANATION = 'Oracle: the textbook definitions written in the harness from primitive quantities.'


def configs(tier):
    gs = cm.GAMMAS_QUICK if tier == 'quick' else cm.GAMMAS_ALL
    out = []
    for m in ('euler1d', 'nozzle', 'euler2d'):
        for g in gs:
            out.append({'model': m, 'gamma': g})
    out += [{'model': 'shallowwater', 'g': '981/100'}, {'model': 'convection'}, {'model': 'burgers'}]
    return out


def harness(cfg, B):
    fd = B.fd
    np = B.np
    n = 3
    m = cfg['model']
    if m in ('euler1d', 'nozzle', 'euler2d'):
        g = B.const(cfg['gamma'])
        twod = m == 'euler2d'
        rho, u, p, c = cm.euler_prim(B, 'w', g, n, twod=twod)
        if m == 'euler1d':
            model = fd.euler.euler1d(gamma=g)
            mesh = fd.mesh.unimesh(ncell=n, length=B.pos('len'))
        elif m == 'nozzle':
            # the section law is a genuine function of the abscissa (symbolic quadratic), so that the place where it is evaluated matters
            s0, s1, s2 = B.pos('s0', 0.5, 2.0), B.var('s1', -0.3, 0.3), B.var('s2', -0.1, 0.1)

            def section(x):
                return s0 + s1 * x + s2 * x * x
            model = fd.euler.nozzle(section, gamma=g)
            mesh = cm.make_mesh(B, fd, {'mesh': 'faces'}, n)
            A = section(mesh.centers())
            for i in range(n):
                B.assume(A[i] > 0)
            for xx in mesh.xf:
                B.assume(section(xx) > 0)
            model.initdisc(mesh)
        else:
            model = fd.euler.euler2d(gamma=g)
            mesh = cm.mesh2d(B, fd, n, 1, B.pos('lx'), B.pos('ly'))
        # other model objects created AFTER the one under test: the registries of variables are per object, not shared
        fd.euler.euler2d(gamma=B.const('5/3'))
        fd.euler.euler1d(gamma=B.const('5/3'))
        fd.euler.nozzle(lambda x: 1 + 0 * x, gamma=B.const('5/3'))
        fd.shallowwater.shallowwater1d(g=B.const(3))
        P_ = [rho, u, p]
        P0 = [x.copy() for x in P_]          # pristine copies: the conversions must not modify the arrays they are given
        Q = model.prim2cons(P_)
        Q0 = [x.copy() for x in Q]
        P2 = model.cons2prim(Q)
        for k, nm in enumerate(['rho', 'vel', 'p']):
            B.eq_arrays('c2p(p2c(P)).' + nm, P2[k], P_[k])
        # conservative -> primitive -> conservative, from an arbitrary admissible conservative state
        V2 = u * u if not twod else u[0] * u[0] + u[1] * u[1]
        E = p / (g - 1) + rho * V2 / 2
        Qh = [rho, rho * u, E]
        Q2 = model.prim2cons(model.cons2prim(Qh))
        for k, nm in enumerate(['rho', 'mom', 'E']):
            B.eq_arrays('p2c(c2p(Q)).' + nm, Q2[k], Qh[k])
        field = fd.field.fdata(model, mesh, Q)
        a2 = g * p / rho
        h = g / (g - 1) * p / rho
        htot = h + V2 / 2
        defs = {
            'density': rho, 'pressure': p, 'velocity': u,
            'kinetic_energy': rho * V2 / 2, 'kinetic-energy': rho * V2 / 2,
            'enthalpy': h, 'htot': htot, 'rttot': (g - 1) / g * htot,
            'massflow': rho * u if m != 'nozzle' else rho * u * A,
        }
        if twod:
            defs['velocity_x'] = u[0]
            defs['velocity_y'] = u[1]
        for name in sorted(model.list_var()):
            val = field.phydata(name)
            expect_shape = (2, n) if (twod and name == 'velocity') else (n,)
            ok = tuple(np.shape(val)) == expect_shape
            B.ob('shape:' + name, 'true', B.boolean(ok), meta={'shape': list(np.shape(val)), 'expected': list(expect_shape)})
            if not ok:
                continue
            if name in defs:
                B.eq_arrays('var:' + name, val, defs[name])
            elif name == 'velocitymag':
                for i in range(n):
                    B.ob('var:velocitymag>=0[%d]' % i, 'le', B.const(0), val[i])
                    B.ob('var:velocitymag^2[%d]' % i, 'eq', val[i] * val[i], V2[i])
            elif name == 'asound':
                for i in range(n):
                    B.ob('var:asound>=0[%d]' % i, 'le', B.const(0), val[i])
                    B.ob('var:asound^2[%d]' % i, 'eq', val[i] * val[i], a2[i])
            elif name == 'mach':
                for i in range(n):
                    B.ob('var:mach>=0[%d]' % i, 'le', B.const(0), val[i])
                    B.ob('var:mach^2*a^2[%d]' % i, 'eq', val[i] * val[i] * a2[i], V2[i])
            elif name == 'ptot':
                M2 = V2 / a2
                ex = g / (g - 1)
                ref = p * (1 + (g - 1) / 2 * M2) ** ex
                B.eq_arrays('var:ptot', val, ref, method='sweep')
            elif name == 'entropy':
                ref = np.log(p / rho ** g) / (g - 1)
                B.eq_arrays('var:entropy', val, ref, method='sweep')
            else:
                B.ob('var:%s has an oracle' % name, 'true', B.boolean(False), meta={'note': 'variable without definition in the harness'})
        # the same field object after its data changed (doubled conservative state: density, momentum and energy x2, so pressure x2
        # and velocity unchanged): a named variable must follow the data it is asked about, and the conversions must not have
        # modified the arrays they were given
        for k, nm in enumerate(['rho', 'vel', 'p']):
            B.eq_arrays('prim2cons-leaves-its-input-untouched:' + nm, P_[k], P0[k])
        for k, nm in enumerate(['rho', 'mom', 'E']):
            B.eq_arrays('cons2prim-leaves-its-input-untouched:' + nm, Q[k], Q0[k])
        field.data = [2 * q for q in Q]
        B.eq_arrays('after-data-change:density', field.phydata('density'), 2 * rho)
        B.eq_arrays('after-data-change:pressure', field.phydata('pressure'), 2 * p)
        B.eq_arrays('after-data-change:velocity', field.phydata('velocity'), u)
    elif m == 'shallowwater':
        g = B.const(cfg['g'])
        model = fd.shallowwater.shallowwater1d(g=g)
        h, u, c = cm.sw_prim(B, 'w', g, n)
        mesh = fd.mesh.unimesh(ncell=n, length=B.pos('len'))
        P_ = [h, u]
        Q = model.prim2cons(P_)
        P2 = model.cons2prim(Q)
        B.eq_arrays('c2p(p2c(P)).h', P2[0], h)
        B.eq_arrays('c2p(p2c(P)).u', P2[1], u)
        Qh = [h, h * u]
        Q2 = model.prim2cons(model.cons2prim(Qh))
        B.eq_arrays('p2c(c2p(Q)).h', Q2[0], Qh[0])
        B.eq_arrays('p2c(c2p(Q)).q', Q2[1], Qh[1])
        field = fd.field.fdata(model, mesh, Q)
        defs = {'height': h, 'massflow': h * u, 'velocity': u}
        for name in sorted(model.list_var()):
            val = field.phydata(name)
            B.ob('shape:' + name, 'true', B.boolean(tuple(np.shape(val)) == (n,)))
            if name in defs:
                B.eq_arrays('var:' + name, val, defs[name])
            else:
                B.ob('var:%s has an oracle' % name, 'true', B.boolean(False))
    else:
        model = fd.convection.model(B.var('aconv')) if m == 'convection' else fd.burgers.model()
        mesh = fd.mesh.unimesh(ncell=n, length=B.pos('len'))
        q = B.vararray('q', n)
        P2 = model.cons2prim(model.prim2cons([q]))
        B.eq_arrays('c2p(p2c(P))', P2[0], q)
        Q2 = model.prim2cons(model.cons2prim([q]))
        B.eq_arrays('p2c(c2p(Q))', Q2[0], q)
        field = fd.field.fdata(model, mesh, [q])
        for name in sorted(model.list_var()):
            val = field.phydata(name)
            B.ob('shape:' + name, 'true', B.boolean(tuple(np.shape(val)) == (n,)))
            if name == 'q':
                B.eq_arrays('var:q', val, q)
            else:
                B.ob('var:%s has an oracle' % name, 'true', B.boolean(False))
