"""C02 - numerical fluxes are consistent, mirror-symmetric and upwind."""
from fractions import Fraction
from . import common as cm

ID = 'C02'
FUNCTIONS = ['flowdyn.modelphy.convection.model.numflux', 'flowdyn.modelphy.burgers.model.numflux',
             'flowdyn.modelphy.shallowwater.shallowwater1d.numflux_{centeredflux,rusanov,hll}',
             'flowdyn.modelphy.euler.euler.numflux_{centeredflux,centeredmassflow,hlle,hllc}', 'flowdyn.modelphy.euler.euler._Roe_average',
             'flowdyn.modelphy.euler.euler2d.numflux_{centeredflux,hlle}', 'flowdyn.modelphy.euler.euler2d.{_derived_fromprim,_Roe_average}',
             'flowdyn.modelphy.*.numflux (dispatch by name)']
BOUNDS = ('one face; left and right states symbolic over the whole admissible set (rho,p,h>0, any velocity: equal states, sonic '
          'points, zero velocity and arbitrary ratios are points of the domain); gamma in {2, 7/5} (thorough + 5/3), g = 981/100; '
          '2D: both face directions (1,0),(0,1). burgers and hllc are path-explored (python branches / np.where forked) so '
          'that every case, including the exact ties, is an ite-free query')
OUTSIDE = 'float round-off near sonic points; gamma other than the listed rationals'
ASSUMPTIONS = ['upwind clause: both states and the Roe average supercritical in the same direction; the Roe average is written '
               'independently in the harness (Euler: sqrt(rho)-weighted u and H; shallow water: sqrt(h)-weighted u, c^2=g(hL+hR)/2)']
EXPLANATION = 'Oracle: textbook physical fluxes written in the harness; mirror symmetry compares two runs of the real function.'

UPWIND = {('convection', None), ('burgers', None), ('shallowwater', 'hll'), ('euler1d', 'hlle'), ('euler1d', 'hllc'), ('euler2d', 'hlle')}


def configs(tier):
    out = []
    gs = ['2', '7/5'] if tier == 'quick' else ['2', '7/5', '5/3']
    for clause in ('consistency', 'mirror', 'upwind'):
        for model, fluxes in list(cm.FLUXES.items()) + [('euler2d', ['centered', 'hlle'])]:
            if model == 'nozzle':
                continue
            for fl in fluxes:
                if clause == 'upwind' and (model, fl) not in UPWIND:
                    continue
                for g in (gs if model.startswith('euler') else [None]):
                    c = {'clause': clause, 'model': model, 'flux': fl}
                    if g:
                        c['gamma'] = g
                    if model == 'burgers':
                        c.update(explore=True)
                    if fl == 'hllc' and clause != 'consistency':
                        c.update(timeout_ms=30000 if tier == 'quick' else 300000, budget_s=600 if tier == 'quick' else 7200)
                    if tier == 'quick' and fl in ('hlle', 'hllc') and clause != 'consistency':
                        c['sweep_timeout_ms'] = 1200
                    if model == 'euler2d':
                        for dirn in ([1, 0], [0, 1]):
                            out.append(dict(c, dir=dirn))
                    else:
                        out.append(c)
    return out


def _state(B, model_name, model, tag):
    if model_name in ('convection', 'burgers'):
        return [B.vararray(tag + 'q', 1)], None
    if model_name == 'shallowwater':
        h, u, c = cm.sw_prim(B, tag, model.g, 1)
        return [h, u], c
    if model_name == 'euler2d':
        rho, V, p, c = cm.euler_prim(B, tag, model.gamma, 1, twod=True)
        return [rho, V, p], c
    rho, u, p, c = cm.euler_prim(B, tag, model.gamma, 1)
    return [rho, u, p], c


def _physflux(B, model_name, model, W, dirn=None):
    if model_name == 'convection':
        return [model.convcoef * W[0][0]]
    if model_name == 'burgers':
        return [W[0][0] * W[0][0] / 2]
    if model_name == 'shallowwater':
        h, u = W[0][0], W[1][0]
        return [h * u, h * u * u + model.g * h * h / 2]
    g = model.gamma
    if model_name == 'euler2d':
        rho, u, v, p = W[0][0], W[1][0][0], W[1][1][0], W[2][0]
        un = u * dirn[0] + v * dirn[1]
        H = g / (g - 1) * p / rho + (u * u + v * v) / 2
        return [rho * un, rho * un * u + p * dirn[0], rho * un * v + p * dirn[1], rho * un * H]
    rho, u, p = W[0][0], W[1][0], W[2][0]
    H = g / (g - 1) * p / rho + u * u / 2
    return [rho * u, rho * u * u + p, rho * u * H]


def _flat(model_name, F):
    if model_name == 'euler2d':
        return [F[0][0], F[1][0][0], F[1][1][0], F[2][0]]
    return [f[0] for f in F]


def _numflux(B, model_name, model, fl, WL, WR, dirn=None):
    if model_name == 'euler2d':
        d = B.array([[B.const(dirn[0])], [B.const(dirn[1])]])
        return _flat(model_name, model.numflux(fl, WL, WR, d))
    if model_name in ('convection', 'burgers'):
        return _flat(model_name, model.numflux(fl, WL, WR))
    return _flat(model_name, model.numflux(fl, WL, WR))


def _mirror(B, model_name, W):
    """reflection x -> -x of a primitive state"""
    if model_name == 'convection':
        return [W[0]]
    if model_name == 'burgers':
        return [-W[0]]
    if model_name == 'shallowwater':
        return [W[0], -W[1]]
    if model_name == 'euler2d':
        return None
    return [W[0], -W[1], W[2]]


def _wave_speeds(B, model, WL, WR, cL, cR, mname='euler1d', dirn=None):
    """Einfeldt wave-speed estimates written independently (hints: the prover locates the code's own nodes that are
    provably equal to them and cuts those to variables); facts = properties of min/max kept on the cut variables"""
    np = B.np
    g = model.gamma
    if mname == 'euler2d':
        rL, rR, pL, pR = WL[0][0], WR[0][0], WL[2][0], WR[2][0]
        uL = WL[1][0][0] * dirn[0] + WL[1][1][0] * dirn[1]
        uR = WR[1][0][0] * dirn[0] + WR[1][1][0] * dirn[1]
        kL = (WL[1][0][0] ** 2 + WL[1][1][0] ** 2) / 2
        kR = (WR[1][0][0] ** 2 + WR[1][1][0] ** 2) / 2
    else:
        rL, uL, pL, rR, uR, pR = WL[0][0], WL[1][0], WL[2][0], WR[0][0], WR[1][0], WR[2][0]
        kL, kR = uL * uL / 2, uR * uR / 2
    HL = g / (g - 1) * pL / rL + kL
    HR = g / (g - 1) * pR / rR + kR
    w = np.sqrt(rR / rL)
    uRoe = (uL + uR * w) / (1 + w)
    HRoe = (HL + HR * w) / (1 + w)
    if mname == 'euler2d':
        URx = (WL[1][0][0] + WR[1][0][0] * w) / (1 + w)
        URy = (WL[1][1][0] + WR[1][1][0] * w) / (1 + w)
        kRoe = (URx * URx + URy * URy) / 2
    else:
        kRoe = uRoe * uRoe / 2
    cRoe = np.sqrt((g - 1) * (HRoe - kRoe))
    sL = np.minimum(uRoe - cRoe, uL - cL[0])
    sR = np.maximum(uRoe + cRoe, uR + cR[0])
    facts = [sL <= uL - cL[0], sR >= uR + cR[0]]
    # contact speed of HLLC written from the two estimates; sL < sM < sR is the classical ordering of the HLLC waves
    sM = (pL - pR - rL * uL * (sL - uL) + rR * uR * (sR - uR)) / (rR * (sR - uR) - rL * (sL - uL))
    order = [sL < sM, sM < sR]
    return sL, sR, facts, order


PARITY = {'convection': [-1], 'burgers': [1], 'shallowwater': [-1, 1], 'euler1d': [-1, 1, -1]}
NAMES = {'convection': ['q'], 'burgers': ['u'], 'shallowwater': ['depth', 'momentum'], 'euler1d': ['mass', 'momentum', 'energy'],
         'euler2d': ['mass', 'xmomentum', 'ymomentum', 'energy']}


def harness(cfg, B):
    fd = B.fd
    np = B.np
    mname, fl, clause = cfg['model'], cfg['flux'], cfg['clause']
    model = cm.make_model(B, fd, cfg)
    dirn = cfg.get('dir')
    names = NAMES[mname]
    sw = dict(method='sweep')
    if clause == 'consistency':
        W, c = _state(B, mname, model, 'w')
        if mname == 'burgers':
            B.case.assume  # noqa  (no assumption: u=0 is inside)
        F = _numflux(B, mname, model, fl, W, [w.copy() for w in W], dirn)
        ref = _physflux(B, mname, model, W, dirn)
        for k, nm in enumerate(names):
            B.ob('F(W,W)=f(W):' + nm, 'eq', F[k], ref[k], **sw)
        return
    WL, cL = _state(B, mname, model, 'l')
    WR, cR = _state(B, mname, model, 'r')
    F = _numflux(B, mname, model, fl, WL, WR, dirn)
    if clause == 'mirror':
        if mname == 'euler2d':
            # reflection along the face normal: swap states, reverse the normal velocity component; the tangential one is even
            nx, ny = dirn
            def mir(W):
                V = W[1]
                Vm = B.array([[V[0][0] * (1 - 2 * nx)], [V[1][0] * (1 - 2 * ny)]])
                return [W[0], Vm, W[2]]
            Fm = _numflux(B, mname, model, fl, mir(WR), mir(WL), dirn)
            par = [-1, -1 if ny else 1, -1 if nx else 1, -1]      # normal momentum is odd (unchanged), tangential one even
            for k, nm in enumerate(names):
                B.ob('mirror:' + nm, 'eq', F[k], par[k] * Fm[k], **sw)
            return
        if mname == 'convection':
            model2 = fd.convection.model(-model.convcoef)
        else:
            model2 = model
        Fm = _numflux(B, mname, model2, fl, _mirror(B, mname, WR), _mirror(B, mname, WL), dirn)
        kw = dict(sw)
        if fl == 'hllc':
            sLr, sRr, facts, order = _wave_speeds(B, model, WL, WR, cL, cR)
            B.note('HLLC mirror/upwind clauses are decided under the ASSUMED classical wave ordering sL < sM < sR '
                   '(not proved here: it needs the Roe-average inequalities)')
            kw = dict(method='split', hints=[sLr, sRr], cuts=[0, 1], facts=facts + order, assume=order,
                      meta={'split_budget_s': 200 if cfg.get('timeout_ms', 0) <= 30000 else 3000})
        for k, nm in enumerate(names):
            B.ob('mirror:' + nm, 'eq', F[k], PARITY[mname][k] * Fm[k], **kw)
        return
    # upwind clause
    fL = _physflux(B, mname, model, WL, dirn)
    fR = _physflux(B, mname, model, WR, dirn)
    if mname == 'convection':
        a = model.convcoef
        for k, nm in enumerate(names):
            B.ob('upwind-right:' + nm, 'eq', F[k], fL[k], assume=[a > 0])
            B.ob('upwind-left:' + nm, 'eq', F[k], fR[k], assume=[a < 0])
        return
    if mname == 'burgers':
        uL, uR = WL[0][0], WR[0][0]
        B.ob('upwind-right:u', 'eq', F[0], fL[0], assume=[uL > 0, uR > 0])
        B.ob('upwind-left:u', 'eq', F[0], fR[0], assume=[uL < 0, uR < 0])
        return
    if mname == 'shallowwater':
        hL, uL, hR, uR = WL[0][0], WL[1][0], WR[0][0], WR[1][0]
        sL_, sR_ = np.sqrt(hL), np.sqrt(hR)
        uRoe = (sL_ * uL + sR_ * uR) / (sL_ + sR_)
        cRoe = np.sqrt(model.g * (hL + hR) / 2)
        cl, cr = cL[0], cR[0]
    else:
        g = model.gamma
        if mname == 'euler2d':
            rL, rR, pL, pR = WL[0][0], WR[0][0], WL[2][0], WR[2][0]
            uL = WL[1][0][0] * dirn[0] + WL[1][1][0] * dirn[1]
            uR = WR[1][0][0] * dirn[0] + WR[1][1][0] * dirn[1]
            kL = (WL[1][0][0] ** 2 + WL[1][1][0] ** 2) / 2
            kR = (WR[1][0][0] ** 2 + WR[1][1][0] ** 2) / 2
        else:
            rL, uL, pL, rR, uR, pR = WL[0][0], WL[1][0], WL[2][0], WR[0][0], WR[1][0], WR[2][0]
            kL, kR = uL * uL / 2, uR * uR / 2
        HL = g / (g - 1) * pL / rL + kL
        HR = g / (g - 1) * pR / rR + kR
        w = np.sqrt(rR / rL)
        uRoe = (uL + uR * w) / (1 + w)
        HRoe = (HL + HR * w) / (1 + w)
        if mname == 'euler2d':
            URx = (WL[1][0][0] + WR[1][0][0] * w) / (1 + w)
            URy = (WL[1][1][0] + WR[1][1][0] * w) / (1 + w)
            kRoe = (URx * URx + URy * URy) / 2
        else:
            kRoe = uRoe * uRoe / 2
        cRoe = np.sqrt((g - 1) * (HRoe - kRoe))
        cl, cr = cL[0], cR[0]
    right = [uL > cl, uR > cr, uRoe > cRoe]
    left = [uL < -cl, uR < -cr, uRoe < -cRoe]
    hints = [uRoe, cRoe]
    kw = dict(sw)
    if fl == 'hllc':
        sLr, sRr, facts, order = _wave_speeds(B, model, WL, WR, cL, cR)
        B.note('HLLC mirror/upwind clauses are decided under the ASSUMED classical wave ordering sL < sM < sR '
               '(not proved here: it needs the Roe-average inequalities)')
        kw = dict(method='split', hints=[sLr, sRr], cuts=[0, 1],
                  meta={'split_budget_s': 200 if cfg.get('timeout_ms', 0) <= 30000 else 3000})
        hints = []
        fr = order + [sLr > 0]      # proved on the real terms under the supercritical assumption, kept on the cut variable
        fl_ = order + [sRr < 0]
    elif fl == 'hlle' and mname in ('euler1d', 'euler2d'):
        sLr, sRr, facts, _o = _wave_speeds(B, model, WL, WR, cL, cR, mname, dirn)
        kw = dict(method='split', hints=[sLr, sRr], cuts=[0, 1], meta={'split_budget_s': 100})
        hints = []
        order = []
        fr = [sLr > 0, sRr > 0]
        fl_ = [sRr < 0, sLr < 0]
    else:
        fr = fl_ = order = []
    for k, nm in enumerate(names):
        B.ob('upwind-right:' + nm, 'eq', F[k], fL[k], assume=right + order, facts=fr, **dict(kw, hints=kw.get('hints', []) + hints))
        B.ob('upwind-left:' + nm, 'eq', F[k], fR[k], assume=left + order, facts=fl_, **dict(kw, hints=kw.get('hints', []) + hints))
