"""C16 - boundary states satisfy the conditions that define them."""
from fractions import Fraction
from . import common as cm

ID = 'C16'
FUNCTIONS = ['flowdyn.modelphy.euler.euler1d.bc_{sym,insub,insub_cbc,insup,outsub_prim,outsub_qtot,outsub_rh,outsub_nrcbc,outsup}',
             'flowdyn.modelphy.euler.euler2d.bc_{sym,insub,insup,outsub,outsup}', 'flowdyn.modelphy.shallowwater.shallowwater1d.bc_{sym,inf}',
             'flowdyn.modelphy.base.model.{bc_dirichlet,namedBC}', 'flowdyn.modeldisc.fvm1d.calc_bc', 'flowdyn.modeldisc.fvm2dcart.calc_bc',
             'flowdyn.mesh2d.mesh2d.{normal_of_bc,index_of_bc,bcface_orientation}',
             'flowdyn.modelphy.euler.euler.{prim2cons,ptot,rttot,pressure,asound,entropy} (used to evaluate the returned state)']
BOUNDS = ('one boundary face, interior state symbolic admissible (any Mach number), parameters ptot, rttot, p symbolic > 0 inside '
          "each condition's documented regime (p <= ptot for total-pressure inlets/outlets), dir in {-1,+1} (1D) / the four "
          'sides with the normals supplied by the real mesh2d (2D), gamma = 2 (quick; 7/5 in the quick tier only as a bounded search with a 3 s solver timeout) and 7/5 (thorough); call sites on a '
          '3-cell 1D mesh and a 2x2 grid')
OUTSIDE = ('gamma other than the listed values; the inflow sign of insub_cbc (depends on the interior state, only its compatible '
           'fixed point is asserted, in C03); float round-off')
ASSUMPTIONS = ['outsub_rh: Rankine-Hugoniot relations asserted in the shock-speed-free form (u1-u0)^2 = (p1-p0)(1/rho0-1/rho1) and '
               'e1-e0 = (p0+p1)/2 (1/rho0-1/rho1), plus the sign of the velocity jump']
EXPLANATION = 'The returned primitive state is pushed through the real prim2cons and the real variable functions.'

BC1D = ['sym', 'insub', 'insub_cbc', 'insup', 'outsub', 'outsub_prim', 'outsub_qtot', 'outsub_rh', 'outsub_nrcbc', 'outsup', 'dirichlet']


def configs(tier):
    out = []
    gs = ['2'] if tier == 'quick' else ['2', '7/5']
    for g in gs:
        for bc in BC1D:
            for dr in (-1, 1):
                out.append({'model': 'euler1d', 'bc': bc, 'dir': dr, 'gamma': g})
        for bc in ('sym', 'insub', 'insup', 'insup-angle', 'outsub', 'outsup', 'dirichlet'):
            for side in ('left', 'right', 'top', 'bottom'):
                out.append({'model': 'euler2d', 'bc': bc, 'side': side, 'gamma': g})
    for dr in (-1, 1):
        for bc in ('sym', 'inf', 'dirichlet'):
            out.append({'model': 'shallowwater', 'bc': bc, 'dir': dr})
    for bc in ('dirichlet',):
        for m in ('convection', 'burgers'):
            out.append({'model': m, 'bc': bc, 'dir': 1})
    for g in gs:
        out.append({'model': 'euler1d', 'bc': 'callsite', 'gamma': g})
        out.append({'model': 'euler2d', 'bc': 'callsite', 'gamma': g})
    if tier == 'quick':
        # gamma = 2 makes the exponents 1/(gamma-1) and gamma/(gamma-1) trivial (1 and 2): the quick tier also runs gamma = 7/5 with a
        # short solver timeout - a bounded search for violations (simulation-guided models, replayed); the proofs are in the thorough tier
        for bc in BC1D:
            for dr in (-1, 1):
                out.append({'model': 'euler1d', 'bc': bc, 'dir': dr, 'gamma': '7/5', 'timeout_ms': 3000, 'sweep_budget_s': 10, 'guided_tries': 300})
        for bc in ('insub', 'insup', 'insup-angle', 'outsub'):
            out.append({'model': 'euler2d', 'bc': bc, 'side': 'top', 'gamma': '7/5', 'timeout_ms': 3000, 'sweep_budget_s': 10, 'guided_tries': 300})
    return out


def harness(cfg, B):
    m = cfg['model']
    if cfg['bc'] == 'callsite':
        return _callsite1d(cfg, B) if m == 'euler1d' else _callsite2d(cfg, B)
    if m == 'euler1d':
        return _euler1d(cfg, B)
    if m == 'euler2d':
        return _euler2d(cfg, B)
    return _other(cfg, B)


def _other(cfg, B):
    fd = B.fd
    m, bc, dr = cfg['model'], cfg['bc'], cfg['dir']
    model = cm.make_model(B, fd, cfg)
    if m == 'shallowwater':
        h, u, c = cm.sw_prim(B, 'w', model.g, 1)
        data = [h, u]
    else:
        data = [B.vararray('q', 1)]
    if bc == 'dirichlet':
        prm = [B.vararray('d%d' % k, 1) for k in range(len(data))]
        r = model.namedBC('dirichlet', dr, data, {'type': 'dirichlet', 'prim': prm})
        for k in range(len(data)):
            B.eq_arrays('dirichlet-returns-imposed-state[%d]' % k, r[k], prm[k])
        return
    r = model.namedBC(bc, dr, data, {'type': bc})
    B.eq_arrays('height-copied', r[0], data[0])
    if bc == 'sym':
        B.eq_arrays('velocity-reversed', r[1], -data[1])
    else:
        B.eq_arrays('velocity-copied', r[1], data[1])


def _vars_of(B, model, prim):
    Q = model.prim2cons(prim)
    return {k: getattr(model, k)(Q) for k in ('ptot', 'rttot', 'pressure', 'asound')}, Q


def _euler1d(cfg, B):
    fd = B.fd
    np = B.np
    bc, dr = cfg['bc'], cfg['dir']
    g = B.const(cfg['gamma'])
    gm1 = g - 1
    model = fd.euler.euler1d(gamma=g)
    rho, u, p, c = cm.euler_prim(B, 'w', g, 1)
    data = [rho, u, p]
    V0, Q0 = _vars_of(B, model, data)
    prm = {'type': bc}
    sw = dict(method='sweep')
    if bc in ('insub', 'insub_cbc', 'insup', 'outsub_qtot'):
        # total quantities imposed through those of an arbitrary admissible reference state (covers every ptot, rttot > 0)
        pass
    if bc == 'dirichlet':
        prmv = [B.vararray('d%d' % k, 1) for k in range(3)]
        r = model.namedBC('dirichlet', dr, data, {'type': 'dirichlet', 'prim': prmv})
        for k in range(3):
            B.eq_arrays('dirichlet-returns-imposed-state[%d]' % k, r[k], prmv[k])
        return
    if bc in ('insub', 'insub_cbc', 'insup'):
        ptot = B.pos('ptot', 1.0, 4.0)
        rttot = B.pos('rttot', 0.5, 3.0)
        prm.update(ptot=ptot, rttot=rttot)
        if bc == 'insub':
            B.assume(p[0] <= ptot)
        if bc == 'insub_cbc':
            # regime of the characteristic inlet: the sound speed selected by the energy equation is positive,
            # i.e. the imposed total enthalpy exceeds the kinetic energy carried by the outgoing invariant
            inv = u[0] + dr * 2 * V0['asound'][0] / gm1
            B.assume((dr * inv >= 0) | (g / gm1 * rttot > inv * inv / 2))
        if bc == 'insup':
            pp = B.pos('pimp', 0.2, 1.0)
            prm['p'] = pp
            B.assume(pp <= ptot)
    if bc in ('outsub', 'outsub_prim', 'outsub_qtot', 'outsub_rh', 'outsub_nrcbc'):
        pp = B.pos('pimp', 0.2, 3.0)
        prm['p'] = pp
        if bc == 'outsub_qtot':
            B.assume(pp <= V0['ptot'][0])
    # the user's dictionary is first used for the OTHER side (one dictionary object may serve several boundaries) and must come back
    # unchanged: a boundary function neither stores anything in it nor depends on an earlier evaluation
    keys0 = sorted(prm)
    try:
        model.namedBC(bc, -dr, [d.copy() for d in data], prm)
    except Exception:
        pass
    B.ob('parameters-dictionary-untouched', 'true', B.boolean(sorted(prm) == keys0), meta={'keys': sorted(prm)})
    r = model.namedBC(bc, dr, data, prm)
    r = [x if hasattr(x, '__len__') else B.array([x]) for x in r]
    VB, QB = _vars_of(B, model, r)
    rb, ub, pb = r[0][0], r[1][0], r[2][0]
    r0, u0, p0 = rho[0], u[0], p[0]
    B.ob('density>0', 'lt', B.const(0), rb, **sw)
    B.ob('pressure>0', 'lt', B.const(0), pb, **sw)
    if bc == 'sym':
        B.ob('density-copied', 'eq', rb, r0)
        B.ob('pressure-copied', 'eq', pb, p0)
        B.ob('normal-velocity-reversed', 'eq', ub, -u0)
    elif bc == 'outsup':
        B.ob('density-copied', 'eq', rb, r0)
        B.ob('pressure-copied', 'eq', pb, p0)
        B.ob('velocity-copied', 'eq', ub, u0)
    elif bc in ('outsub', 'outsub_prim'):
        B.ob('pressure-imposed', 'eq', pb, pp)
        B.ob('density-copied', 'eq', rb, r0)
        B.ob('velocity-copied', 'eq', ub, u0)
    elif bc in ('insub', 'insup'):
        B.ob('total-pressure-imposed', 'eq', VB['ptot'][0], ptot, **sw)
        B.ob('total-temperature-imposed', 'eq', VB['rttot'][0], rttot, **sw)
        B.ob('flows-into-the-domain', 'le', ub * dr, B.const(0), **sw)
        if bc == 'insub':
            B.ob('interior-pressure-kept', 'eq', pb, p0)
        else:
            B.ob('pressure-imposed', 'eq', pb, pp)
    elif bc == 'insub_cbc':
        B.ob('total-pressure-imposed', 'eq', VB['ptot'][0], ptot, **sw)
        B.ob('total-temperature-imposed', 'eq', VB['rttot'][0], rttot, **sw)
        B.ob('outgoing-invariant-kept', 'eq', ub + dr * 2 * VB['asound'][0] / gm1, u0 + dr * 2 * V0['asound'][0] / gm1, **sw)
    elif bc == 'outsub_qtot':
        B.ob('pressure-imposed', 'eq', pb, pp)
        B.ob('total-pressure-kept', 'eq', VB['ptot'][0], V0['ptot'][0], **sw)
        B.ob('total-temperature-kept', 'eq', VB['rttot'][0], V0['rttot'][0], **sw)
        B.ob('flows-out-of-the-domain', 'le', B.const(0), ub * dr, **sw)
    elif bc == 'outsub_nrcbc':
        B.ob('pressure-imposed', 'eq', pb, pp)
        # entropy kept:  p_B / rho_B^gamma = p / rho^gamma   (asserted without logarithm)
        B.ob('entropy-kept', 'eq', pb * r0 ** g, p0 * rb ** g, **sw)
        B.ob('outgoing-invariant-kept', 'eq', ub + dr * 2 * VB['asound'][0] / gm1, u0 + dr * 2 * V0['asound'][0] / gm1, **sw)
        # known finding C16-nrcbc-invariant: the code keeps the invariant of the other family (the one constant across the
        # outgoing wave). This companion holds for a code that keeps EITHER the invariant the property names or exactly that
        # known deviation (product of the two defects = 0), so that any *other* change is still reported and a conforming
        # repair is not.
        d_prop = (ub + dr * 2 * VB['asound'][0] / gm1) - (u0 + dr * 2 * V0['asound'][0] / gm1)
        d_known = (ub - dr * 2 * VB['asound'][0] / gm1) - (u0 - dr * 2 * V0['asound'][0] / gm1)
        B.ob('invariant-kept:outgoing-or-known-deviation', 'eq', d_prop * d_known, B.const(0), **sw)
    elif bc == 'outsub_rh':
        B.ob('pressure-imposed', 'eq', pb, pp)
        dv = 1 / r0 - 1 / rb
        B.ob('rankine-hugoniot:mass+momentum', 'eq', (ub - u0) * (ub - u0), (pb - p0) * dv, **sw)
        B.ob('rankine-hugoniot:energy', 'eq', (pb / rb - p0 / r0) / gm1, (p0 + pb) / 2 * dv, **sw)
        B.ob('rankine-hugoniot:velocity-jump-sign', 'le', (ub - u0) * dr * (pb - p0), B.const(0), **sw)


def _euler2d(cfg, B):
    fd = B.fd
    np = B.np
    bc, side = cfg['bc'], cfg['side']
    g = B.const(cfg['gamma'])
    model = fd.euler.euler2d(gamma=g)
    mesh = cm.mesh2d(B, fd, 2, 2, B.pos('lx'), B.pos('ly'))
    dirn = mesh.normal_of_bc(side)
    nf = dirn.shape[1]
    rho, V, p, c = cm.euler_prim(B, 'w', g, nf, twod=True)
    data = [rho, V, p]
    V0, Q0 = _vars_of(B, model, data)
    sw = dict(method='sweep')
    prm = {'type': bc.split('-')[0]}
    nx_, ny_ = float(dirn[0][0]), float(dirn[1][0])
    if bc == 'dirichlet':
        prmv = [B.vararray('d0', nf), B.vararray('d1', (2, nf)), B.vararray('d2', nf)]
        r = model.namedBC('dirichlet', dirn, data, {'type': 'dirichlet', 'prim': prmv})
        B.eq_arrays('dirichlet-returns-imposed-state[0]', r[0], prmv[0])
        B.eq_arrays('dirichlet-returns-imposed-state[1]', r[1], prmv[1])
        B.eq_arrays('dirichlet-returns-imposed-state[2]', r[2], prmv[2])
        return
    if bc in ('insub', 'insup', 'insup-angle'):
        ptot = B.pos('ptot', 1.0, 4.0)
        rttot = B.pos('rttot', 0.5, 3.0)
        prm.update(ptot=ptot, rttot=rttot)
        if bc == 'insub':
            for i in range(nf):
                B.assume(p[i] <= ptot)
        else:
            pp = B.pos('pimp', 0.2, 1.0)
            prm['p'] = pp
            B.assume(pp <= ptot)
            if bc == 'insup-angle':
                prm['angle'] = B.var('angle', -60.0, 60.0)
    if bc == 'outsub':
        pp = B.pos('pimp', 0.2, 3.0)
        prm['p'] = pp
    keys0 = sorted(prm)
    other = {'left': 'bottom', 'right': 'top', 'top': 'left', 'bottom': 'right'}[side]
    try:
        model.namedBC(prm['type'], mesh.normal_of_bc(other), [d.copy() for d in data], prm)      # same dictionary, another side, first
    except Exception:
        pass
    B.ob('parameters-dictionary-untouched', 'true', B.boolean(sorted(prm) == keys0), meta={'keys': sorted(prm)})
    r = model.namedBC(prm['type'], dirn, data, prm)
    rb, Vb, pb = r[0], r[1], r[2]
    if not hasattr(rb, '__len__'):
        rb = B.array([rb] * nf)
    if not hasattr(pb, '__len__'):
        pb = B.array([pb] * nf)
    VB, QB = _vars_of(B, model, [rb, Vb, pb])
    for i in range(nf):
        vn0 = V[0][i] * nx_ + V[1][i] * ny_
        vt0 = -V[0][i] * ny_ + V[1][i] * nx_
        vnb = Vb[0][i] * nx_ + Vb[1][i] * ny_
        vtb = -Vb[0][i] * ny_ + Vb[1][i] * nx_
        if bc == 'sym':
            B.ob('density-copied[%d]' % i, 'eq', rb[i], rho[i])
            B.ob('pressure-copied[%d]' % i, 'eq', pb[i], p[i])
            B.ob('normal-velocity-reversed[%d]' % i, 'eq', vnb, -vn0)
            B.ob('tangential-velocity-copied[%d]' % i, 'eq', vtb, vt0)
        elif bc == 'outsup':
            B.ob('density-copied[%d]' % i, 'eq', rb[i], rho[i])
            B.ob('pressure-copied[%d]' % i, 'eq', pb[i], p[i])
            B.ob('velocity-copied-x[%d]' % i, 'eq', Vb[0][i], V[0][i])
            B.ob('velocity-copied-y[%d]' % i, 'eq', Vb[1][i], V[1][i])
        elif bc == 'outsub':
            B.ob('pressure-imposed[%d]' % i, 'eq', pb[i], pp)
            B.ob('density-copied[%d]' % i, 'eq', rb[i], rho[i])
            B.ob('velocity-copied-x[%d]' % i, 'eq', Vb[0][i], V[0][i])
            B.ob('velocity-copied-y[%d]' % i, 'eq', Vb[1][i], V[1][i])
        else:
            B.ob('total-pressure-imposed[%d]' % i, 'eq', VB['ptot'][i], ptot, **sw)
            B.ob('total-temperature-imposed[%d]' % i, 'eq', VB['rttot'][i], rttot, **sw)
            if bc == 'insub':
                B.ob('interior-pressure-kept[%d]' % i, 'eq', pb[i], p[i])
            else:
                B.ob('pressure-imposed[%d]' % i, 'eq', pb[i], pp)
            if bc != 'insup-angle':
                B.ob('flows-into-the-domain[%d]' % i, 'le', vnb, B.const(0), **sw)
                B.ob('inflow-normal-to-the-boundary[%d]' % i, 'eq', vtb, B.const(0), **sw)
            else:
                # direction (cos, sin) of the requested angle: velocity parallel to it, same sense
                ca, sa = np.cos(np.deg2rad(prm['angle'])), np.sin(np.deg2rad(prm['angle']))
                B.ob('inflow-along-the-requested-angle[%d]' % i, 'eq', Vb[0][i] * sa - Vb[1][i] * ca, B.const(0), **sw)
                B.ob('inflow-sense-of-the-requested-angle[%d]' % i, 'le', B.const(0), Vb[0][i] * ca + Vb[1][i] * sa, **sw)


def _callsite1d(cfg, B):
    """fvm1d.calc_bc hands dir=-1 / the first interior state to the left condition and dir=+1 / the last one to the right"""
    fd = B.fd
    g = B.const(cfg['gamma'])
    model = fd.euler.euler1d(gamma=g)
    n = 3
    mesh = cm.mesh_with_faces(B, fd, cm.mono_faces(B, n))
    rec = []
    orig = model.namedBC

    def spy(name, dr, data, param):
        out = orig(name, dr, data, param)
        rec.append((name, dr, [d for d in data], param, out))
        return out
    model.namedBC = spy
    bcL = {'type': 'outsub_nrcbc', 'p': B.pos('pL', 0.2, 3.0)}
    bcR = {'type': 'outsub_rh', 'p': B.pos('pR', 0.2, 3.0)}
    # a higher-order reconstruction: the interior state handed to the condition is the state extrapolated to the boundary face
    spyface = {}
    num = fd.xnum.extrapol3()
    real_interp = num.interp_face

    def interp(mesh_, data, grad):
        L_, R_ = real_interp(mesh_, data, grad)
        spyface['L'] = [x.copy() for x in L_]
        spyface['R'] = [x.copy() for x in R_]
        return L_, R_
    num.interp_face = interp
    rhs = fd.modeldisc.fvm(model, mesh, num, numflux='hlle', bcL=bcL, bcR=bcR)
    prim, cons = cm.make_state(B, 'euler1d', model, n)
    rhs.rhs(fd.field.fdata(model, mesh, cons))
    B.ob('two-boundary-calls', 'true', B.boolean(len(rec) == 2))
    if len(rec) != 2:
        return
    (nL, dL, datL, pL_, outL), (nR, dR, datR, pR_, outR) = rec
    B.ob('left:type-and-dir', 'true', B.boolean(nL == 'outsub_nrcbc' and dL == -1 and pL_ is bcL), meta={'dir': dL})
    B.ob('right:type-and-dir', 'true', B.boolean(nR == 'outsub_rh' and dR == 1 and pR_ is bcR), meta={'dir': dR})
    for k in range(3):
        B.ob('left:interior-state-is-the-face-state-of-the-first-cell[%d]' % k, 'eq', datL[k], spyface['R'][k][0])
        B.ob('right:interior-state-is-the-face-state-of-the-last-cell[%d]' % k, 'eq', datR[k], spyface['L'][k][n])
        B.ob('left:boundary-state-stored-on-the-outer-side[%d]' % k, 'eq', rhs.pL[k][0], outL[k])
        B.ob('right:boundary-state-stored-on-the-outer-side[%d]' % k, 'eq', rhs.pR[k][n], outR[k])
        B.ob('left:interior-side-untouched[%d]' % k, 'eq', rhs.pR[k][0], spyface['R'][k][0])
        B.ob('right:interior-side-untouched[%d]' % k, 'eq', rhs.pL[k][n], spyface['L'][k][n])


def _callsite2d(cfg, B):
    fd = B.fd
    d = cm.build2d(B, {'nx': 2, 'ny': 2, 'gamma': cfg['gamma'], 'flux': 'centered', 'num': 'extrapol2d1',
                       'bc2d': {'left': {'type': 'insub', 'ptot': B.pos('ptot', 3.0, 4.0), 'rttot': B.pos('rttot', 0.5, 3.0)},
                                'right': {'type': 'outsub', 'p': B.pos('pR', 0.2, 3.0)},
                                'top': 'sym', 'bottom': 'outsup'}})
    model, mesh, rhs = d['model'], d['mesh'], d['rhs']
    rec = {}
    orig = model.namedBC

    def spy(name, dr, data, param):
        out = orig(name, dr, data, param)
        rec[name] = (dr, data, param, out)
        return out
    model.namedBC = spy
    rhs.rhs(d['field'])
    rho, V, p = d['prim']
    nx, ny = 2, 2
    cells = {'left': [j * nx for j in range(ny)], 'right': [j * nx + nx - 1 for j in range(ny)],
             'bottom': list(range(nx)), 'top': [(ny - 1) * nx + i for i in range(nx)]}
    normals = {'left': (-1, 0), 'right': (1, 0), 'bottom': (0, -1), 'top': (0, 1)}
    tags = {'insub': 'left', 'outsub': 'right', 'sym': 'top', 'outsup': 'bottom'}
    B.ob('four-boundary-calls', 'true', B.boolean(sorted(rec) == sorted(tags)))
    for name, side in tags.items():
        if name not in rec:
            continue
        dr, data, param, out = rec[name]
        okn = all((float(dr[0][k]), float(dr[1][k])) == tuple(float(x) for x in normals[side]) for k in range(len(cells[side])))
        B.ob('%s:outward-normal-passed' % side, 'true', B.boolean(okn))
        faces = mesh.index_of_bc(side)
        inner, outer = (rhs.pL, rhs.pR) if mesh.bcface_orientation(side) == 'outward' else (rhs.pR, rhs.pL)
        for k, cidx in enumerate(cells[side]):
            B.ob('%s:interior-state-is-adjacent-cell:rho[%d]' % (side, k), 'eq', data[0][k], rho[cidx])
            B.ob('%s:interior-state-is-adjacent-cell:p[%d]' % (side, k), 'eq', data[2][k], p[cidx])
            B.ob('%s:interior-state-is-adjacent-cell:u[%d]' % (side, k), 'eq', data[1][0][k], V[0][cidx])
            B.ob('%s:interior-state-is-adjacent-cell:v[%d]' % (side, k), 'eq', data[1][1][k], V[1][cidx])
            f = faces[k]
            ob_r = out[0][k] if hasattr(out[0], '__len__') else out[0]
            ob_p = out[2][k] if hasattr(out[2], '__len__') else out[2]
            B.ob('%s:boundary-state-on-the-outer-side:rho[%d]' % (side, k), 'eq', outer[0][f], ob_r)
            B.ob('%s:boundary-state-on-the-outer-side:p[%d]' % (side, k), 'eq', outer[2][f], ob_p)
            B.ob('%s:boundary-state-on-the-outer-side:u[%d]' % (side, k), 'eq', outer[1][0][f], out[1][0][k])
            B.ob('%s:boundary-state-on-the-outer-side:v[%d]' % (side, k), 'eq', outer[1][1][f], out[1][1][k])
            B.ob('%s:interior-side-untouched:rho[%d]' % (side, k), 'eq', inner[0][f], rho[cidx])
