"""Environment stubs for integrator-level harnesses (both modes).

RHSStub   : every rhs() call returns fresh unconstrained arrays K<j>_i and records the
            (time, data) it was called with - the most general right-hand side (nonlinear,
            non-autonomous).  Optional function-consistent mode: equal argument terms give the
            same result (uninterpreted function of (time, data)), for relational checks.
            calc_timestep() returns fresh dt<k> > 0 (a 1-element list, like a 1-cell array) or
            per-cell arrays.
"""


class Model:
    def __init__(self, neq=1, islinear=0):
        self.neq = neq
        self.shape = [1] * neq
        self.islinear = islinear
        self.source = None

    def nameddata(self, name, data):
        return data[0] * 1


class Mesh:
    def __init__(self, B, n, vol=None):
        self.ncell = n
        self._B = B
        self._vol = vol

    def vol(self):
        return self._vol

    def average(self, data):
        return self._B.np.average(data, weights=self.vol())

    def centers(self):
        return None


class RHSStub:
    def __init__(self, B, n, neq=1, prefix='K', dt_prefix='dt', dt_array=False, contract=None, fn=None, kbound=None, reuse=False):
        self.reuse = reuse      # return the SAME array objects at every call (a right-hand side writing into work arrays allocated once)
        self._buf = None
        self.B = B
        self.nelem = n
        self.neq = neq
        self.calls = []     # (time, [data copies])
        self.results = []
        self.dts = []
        self.prefix = prefix
        self.dt_prefix = dt_prefix
        self.dt_array = dt_array
        self.contract = contract
        self.fn = fn
        self.kbound = kbound

    def rhs(self, f):
        j = len(self.calls)
        data = [d.copy() for d in f.data]
        self.calls.append((f.time, data))
        if self.fn is not None:
            r = self.fn(j, f.time, data)
        else:
            r = [self.B.vararray('%s%d_%d' % (self.prefix, j, q), self.nelem) for q in range(self.neq)]
        if self.contract is not None:
            self.contract(j, f.time, data, r)
        self.results.append([x.copy() for x in r])
        if self.reuse:
            if self._buf is None:
                self._buf = [x.copy() for x in r]
            else:
                for q in range(len(r)):
                    self._buf[q][...] = r[q]
            return self._buf
        return r

    def calc_timestep(self, f, cond):
        k = len(self.dts)
        if self.dt_array:
            d = self.B.vararray('%s%d' % (self.dt_prefix, k), self.nelem, positive=True)
            self.dts.append(d)
            return d
        d = self.B.pos('%s%d' % (self.dt_prefix, k), 0.05, 1.0)
        self.dts.append(d)
        return [d]

    def all_L2average(self, qdata):
        s = 0
        for q in qdata:
            for x in q:
                s = s + x * x
        return s


def make(B, integ_name, n=2, neq=1, islinear=0, **kw):
    """(solver, disc, model, mesh) for the real integrator class `integ_name` on a stub RHS"""
    fd = B.fd
    model = Model(neq, islinear)
    mesh = Mesh(B, n)
    disc = RHSStub(B, n, neq, **kw)
    disc.model, disc.mesh = model, mesh          # what a real discretisation object exposes
    cls = getattr(fd.integration, integ_name)
    solver = cls(mesh, disc)
    return solver, disc, model, mesh
