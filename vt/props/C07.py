"""C07 - time bookkeeping: steps advance by dt, snapshots land on the requested times."""
from fractions import Fraction
from . import stubs
from . import common as cm

ID = 'C07'
EXPLORE = True
FUNCTIONS = ['flowdyn.field.fdata.{__init__,copy} (scalar and vector components)', 'flowdyn.integration.timemodel.{solve,restart,_solve,_check_end,add_res,calcrhs,_parse_monitors,_remove_monitor_output}',
             'flowdyn.integration._coreiterative.{reset,nit,totnit}',
             'flowdyn.integration.{explicit,rk2,rkmodel,LSrkmodelHH,implicit,trapezoidal,gear}.step',
             'flowdyn.integration.implicitmodel.{calc_jacobian,solve_implicit}',
             'flowdyn.field.fdata.{__init__,copy,set}', 'flowdyn.field.fieldlist.{append,__getitem__,__len__}']
BOUNDS = ('path exploration of the real solve()/restart() driver loop on a stub right-hand side (fresh values per call) and a '
          'stub time-step function (fresh dt_k > 0 per iteration, scalar or per-cell with dtlocal): start time, save times '
          's_0<...<s_{S-1} (S<=2 quick, <=3 thorough; NO relation to start/stop assumed, so equal to the start, several '
          'inside one step, beyond the stop are all inside), tottime symbolic; maxit concrete <= 2 (quick) / 3 (thorough); '
          '2 cells; all integrator classes')
OUTSIDE = ('more save times / iterations than the bound (the loop body is the same code); float round-off of time stamps; '
           'save times in (tottime, final time] are accepted either way (the statement does not say which stop time is meant)')
ASSUMPTIONS = ['numpy.linalg.solve returns an exact solution (implicit family)',
               'the trajectory itself is finite: denominators met on the full steps are assumed non-zero, those met only on the '
               'side step to a save time are obligations']
EXPLANATION = 'Every feasible path of the driver loop is enumerated by re-execution with z3 feasibility checks.'

INTEG_QUICK = ['explicit', 'rk2', 'rk3ssp', 'rk4', 'lsrk25bb', 'implicit', 'trapezoidal', 'gear']
INTEG_ALL = ['explicit', 'forwardeuler', 'rk2', 'rk2_heun', 'rk3_heun', 'rk3ssp', 'rk4', 'lsrk25bb', 'lsrk26bb', 'lsrk4',
             'implicit', 'backwardeuler', 'trapezoidal', 'cranknicolson', 'gear']


def configs(tier):
    out = []
    if tier == 'quick':
        for integ in INTEG_QUICK:
            out.append({'integrator': integ, 'S': 2, 'K': 2, 'stop': 'maxit', 'call': 'solve'})
            out.append({'integrator': integ, 'S': 1, 'K': 2, 'stop': 'both', 'call': 'solve'})
        for integ in ['explicit', 'rk3ssp', 'implicit']:
            out.append({'integrator': integ, 'S': 1, 'K': 2, 'stop': 'maxit', 'call': 'solve', 'linear': True})     # model.islinear = 1 code paths
            out.append({'integrator': integ, 'S': 0, 'K': 2, 'stop': 'both', 'call': 'solve'})
            out.append({'integrator': integ, 'S': 1, 'K': 2, 'stop': 'maxit', 'call': 'restart', 'it0': 5})
            out.append({'integrator': integ, 'S': 1, 'K': 2, 'stop': 'maxit', 'call': 'solve', 'dtlocal': True})
    else:
        for integ in INTEG_ALL:
            for S, K in [(3, 3), (2, 3)]:
                out.append({'integrator': integ, 'S': S, 'K': K, 'stop': 'maxit', 'call': 'solve', 'timeout_ms': 60000})
            out.append({'integrator': integ, 'S': 2, 'K': 3, 'stop': 'both', 'call': 'solve'})
            out.append({'integrator': integ, 'S': 1, 'K': 3, 'stop': 'maxit', 'call': 'solve', 'linear': True})
            out.append({'integrator': integ, 'S': 0, 'K': 3, 'stop': 'both', 'call': 'solve'})
            out.append({'integrator': integ, 'S': 2, 'K': 2, 'stop': 'maxit', 'call': 'restart', 'it0': 5})
            out.append({'integrator': integ, 'S': 1, 'K': 2, 'stop': 'maxit', 'call': 'solve', 'dtlocal': True})
            out.append({'integrator': integ, 'S': 2, 'K': 1, 'stop': 'none', 'call': 'solve', 'max_depth': 9})
    out.append({'part': 'copy'})
    return out


def _dens(B, arrays):
    from vt import prove
    from vt.sym import L
    ts = []
    for a in arrays:
        for x in B.np.asarray(a, dtype=object).flat:
            ts.append(L(x))
    return prove.denominators(ts)


def _copy(cfg, B):
    """the defensive copies behind 'the caller's initial field is never modified': fdata(...) and fdata.copy() own their arrays,
    for scalar components and for the (2, ncell) vector component of the 2D model"""
    fd = B.fd
    model = fd.euler.euler2d(gamma=B.const('7/5'))
    mesh = cm.mesh2d(B, fd, 2, 1, B.pos('lx'), B.pos('ly'))
    n = 2
    orig = [B.vararray('r', n), B.vararray('m', (2, n)), B.vararray('e', n)]
    data = [d.copy() for d in orig]
    t0 = B.var('t0')
    f = fd.field.fdata(model, mesh, data, t=t0, it=3)
    for d in data:          # the caller keeps using (and modifying) the arrays it passed
        d += 1
    for k, nm in enumerate(('rho', 'mom', 'E')):
        B.eq_arrays('fdata-owns-its-arrays:' + nm, f.data[k], orig[k])
    g = f.copy()
    for d in g.data:
        d *= 2
    g.time = g.time + 1
    g.it = 7
    for k, nm in enumerate(('rho', 'mom', 'E')):
        B.eq_arrays('copy-is-deep:' + nm, f.data[k], orig[k])
        B.eq_arrays('copy-has-the-values:' + nm, g.data[k], 2 * orig[k])
    B.ob('copy-keeps-time', 'eq', f.time, t0)
    B.ob('copy-keeps-it', 'true', B.boolean(f.it == 3))


def harness(cfg, B):
    if cfg.get('part') == 'copy':
        return _copy(cfg, B)
    fd = B.fd
    np = B.np
    n = 2
    integ, S, K = cfg['integrator'], cfg['S'], cfg['K']
    dtlocal = bool(cfg.get('dtlocal'))
    solver, disc, model, mesh = stubs.make(B, integ, n=n, dt_array=dtlocal, islinear=1 if cfg.get('linear') else 0)
    t0 = B.var('t0', -1.0, 1.0)
    ts = [B.var('s%d' % i, -1.0, 3.0) for i in range(S)]
    for i in range(S - 1):
        B.assume(ts[i] < ts[i + 1])
    y0 = B.vararray('y', n)
    it0 = cfg.get('it0', -1)
    f0 = fd.field.fdata(model, mesh, [y0], t=t0, it=it0)
    orig_data = [d.copy() for d in f0.data]
    orig_ids = [id(d) for d in f0.data]
    stop = {}
    T = None
    if cfg['stop'] in ('maxit', 'both'):
        stop['maxit'] = K
    if cfg['stop'] == 'both':
        T = B.var('T', -1.0, 3.0)
        stop['tottime'] = T
    elif S > 0:
        T = ts[-1]

    log = []
    real_step = solver.step

    def nlin():
        if not B.symbolic:
            return 0
        from vt import ctx as _ctx
        return len(_ctx.cur().memo.get('linsolves', []))

    def step(f, dt):
        before = (f.time, [d.copy() for d in f.data])
        l0 = nlin()
        r = real_step(f, dt)
        log.append({'f': f, 't_before': before[0], 'data_before': before[1], 'dt': dt, 't_after': f.time,
                    'data_after': [d.copy() for d in f.data], 'ndts': len(disc.dts), 'lin': (l0, nlin())})
        return r
    solver.step = step
    directives = {'dtlocal': True} if dtlocal else {}
    call = getattr(solver, cfg['call'])
    tsl = list(ts)
    stop_items = sorted((k, id(v)) for k, v in stop.items()) if stop else None
    res = call(f0, B.const(1), tsl, stop=stop if stop else None, directives=directives)
    # the objects the caller passed (which it may pass again to the next call) come back as they were
    B.ob('caller-stop-dictionary-untouched', 'true', B.boolean((sorted((k, id(v)) for k, v in stop.items()) if stop else None) == stop_items),
         meta={'keys': sorted(stop) if stop else None})
    B.ob('caller-save-time-list-untouched', 'true', B.boolean(len(tsl) == len(ts) and all(a is b for a, b in zip(tsl, ts))))
    B.ob('caller-directives-untouched', 'true', B.boolean(directives == ({'dtlocal': True} if dtlocal else {})))
    sols = list(res.solutions)
    Qn = solver.Qn
    R = [r for r in sols if r is not Qn]
    fallback = [r for r in sols if r is Qn]
    snap_ids = {id(r) for r in R}
    full = [e for e in log if id(e['f']) not in snap_ids]
    side = {id(e['f']): e for e in log if id(e['f']) in snap_ids}
    N = len(full)
    B.case.info.update({'full_steps': N, 'snapshots': len(R), 'fallback': len(fallback)})

    def mn(dt):
        if hasattr(dt, '__len__'):
            m = dt[0]
            for x in dt[1:]:
                m = np.minimum(m, x)
            return m
        return dt

    EPS = B.const(Fraction(1, 2 ** 40))
    scale = B.const(0)
    for d in disc.dts:
        scale = scale + mn(d)
    tol = EPS * scale

    def NOT(x):
        return ~x if B.symbolic else (not x)

    def near(a, b):
        return abs(a - b) <= tol

    # (a) every step advances the field time by dt (scalar) / min(dt) (array); the tolerance EPS*|dt| absorbs
    # the rounding of the code's own coefficient sums (rk4: sum([1,2,2,1]/6) = 1-2^-53)
    for k, e in enumerate(log):
        B.ob('step-advances-by-dt[%d]' % k, 'le', abs(e['t_after'] - (e['t_before'] + mn(e['dt']))), EPS * abs(mn(e['dt'])),
             tol=1e-12)
    # trajectory
    traj_t = [t0] + [e['t_after'] for e in full]
    traj_d = [orig_data] + [e['data_after'] for e in full]
    for k, e in enumerate(full):
        dtk = disc.dts[e['ndts'] - 1]
        B.ob('full-step-starts-from-trajectory[%d]' % k, 'eq', e['t_before'], traj_t[k])
        if dtlocal:
            B.eq_arrays('full-step-dt-is-local-array[%d]' % k, e['dt'], dtk)
        else:
            B.ob('full-step-dt-is-min[%d]' % k, 'eq', mn(e['dt']), mn(dtk))
    tend = Qn.time
    B.ob('final-time-is-trajectory-end', 'eq', tend, traj_t[N])
    B.eq_arrays('final-data-is-trajectory-end', Qn.data[0], traj_d[N][0])

    # (c) counters and stop criteria
    itstart = max(it0, 0) if cfg['call'] == 'restart' else 0
    B.ob('nit=full-steps', 'true', B.boolean(solver.nit() == N), meta={'nit': solver.nit(), 'full': N})
    B.ob('totnit', 'true', B.boolean(solver.totnit() == itstart + N))

    def crit(k):
        """stop criteria evaluated on the state after k full steps"""
        c = B.boolean(False)
        if 'maxit' in stop:
            c = c | B.boolean(k >= K)
        if T is not None:
            c = c | (traj_t[k] >= T)
        return c
    for k in range(N):
        B.ob('continues-only-if-no-criterion[%d]' % k, 'true', NOT(crit(k)))
    B.ob('stops-on-criterion', 'true', crit(N))

    # (b) snapshots = the requested times in [start, end of trajectory], in order
    def may(i):
        return (ts[i] >= t0 - tol) & (ts[i] <= tend + tol)

    def must(i):
        c = (ts[i] >= t0) & (ts[i] <= tend - tol)
        if cfg['stop'] == 'both':
            c = c & (ts[i] <= T)
        return c
    for i in range(S):
        hit = B.boolean(False)
        for r in R:
            hit = hit | near(r.time, ts[i])
        B.ob('requested-time-has-snapshot[%d]' % i, 'true', NOT(must(i)) | hit)
    import itertools
    okmap = B.boolean(False)
    for sigma in itertools.combinations(range(S), len(R)):
        c = B.boolean(True)
        for j, i in enumerate(sigma):
            c = c & near(R[j].time, ts[i]) & may(i)
        okmap = okmap | c
    B.ob('snapshots-are-requested-times-in-range-and-order', 'true', okmap, meta={'snapshots': len(R)})
    for j, r in enumerate(R):
        e = side.get(id(r))
        if e is not None:
            k = sum(1 for x in log[:log.index(e)] if id(x['f']) not in snap_ids)
            B.ob('snapshot-step-forward[%d]' % j, 'le', B.const(0), mn(e['dt']), tol=0.0)
            dtk = disc.dts[e['ndts'] - 1]
            B.ob('snapshot-step-within-one-cfl-step[%d]' % j, 'le', mn(e['dt']), mn(dtk), tol=0.0)
            B.ob('snapshot-from-trajectory-time[%d]' % j, 'eq', e['t_before'], traj_t[k])
            B.eq_arrays('snapshot-from-trajectory-data[%d]' % j, e['data_before'][0], traj_d[k][0])
            B.ob('snapshot-it[%d]' % j, 'true', B.boolean(r.it == itstart + k), meta={'it': r.it, 'expected': itstart + k})
            # finite whenever the trajectory is
            if B.symbolic:
                from vt import term as tm
                from vt.sym import PB
                from vt import ctx as _ctx
                lins = _ctx.cur().memo.get('linsolves', [])

                def lin_arrays(ev):
                    out = []
                    for (M, b, x) in lins[ev['lin'][0]:ev['lin'][1]]:
                        out += [M, b]
                    return out
                trd = _dens(B, [x for dd in traj_d for x in dd] + [a for ev in full for a in lin_arrays(ev)])
                tr = {d.id for d in trd}
                new = [d for d in _dens(B, list(r.data) + lin_arrays(e)) if d.id not in tr]
                B.ob('snapshot-finite[%d]' % j, 'true', PB(tm.And(*[tm.ne(d, tm.ZERO) for d in new])),
                     meta={'no_definedness': True}, assume=[PB(tm.ne(d, tm.ZERO)) for d in trd])
            else:
                import numpy as rnp
                fin_tr = all(bool(rnp.all(rnp.isfinite(x))) for dd in traj_d for x in dd)
                fin = all(bool(rnp.all(rnp.isfinite(x))) for x in r.data)
                B.ob('snapshot-finite[%d]' % j, 'true', (not fin_tr) or fin)
        else:
            # no step taken for this snapshot: it must be a copy of a trajectory state
            okc = B.boolean(False)
            for k in range(N + 1):
                same = (r.time == traj_t[k])
                for m in range(n):
                    same = same & (r.data[0][m] == traj_d[k][0][m])
                okc = okc | same
            B.ob('stepless-snapshot-is-a-trajectory-state[%d]' % j, 'true', okc)
    B.ob('fallback-only-when-no-snapshot', 'true', B.boolean(not (fallback and R)))
    if sols:
        # the last returned field carries the cumulative iteration count at which it was produced (restart resumes from it)
        last = sols[-1]
        if last is Qn:
            B.ob('returned-state-iteration-tag', 'true', B.boolean(last.it == itstart + N), meta={'it': last.it, 'expected': itstart + N})
    # caller's field untouched
    B.ob('caller-time-untouched', 'eq', f0.time, t0)
    B.ob('caller-it-untouched', 'true', B.boolean(f0.it == it0))
    B.ob('caller-arrays-kept', 'true', B.boolean([id(d) for d in f0.data] == orig_ids))
    B.eq_arrays('caller-data-untouched', f0.data[0], orig_data[0])
    alias = any(d is x for r in sols + [Qn] for d in r.data for x in f0.data)
    B.ob('results-do-not-alias-caller-arrays', 'true', B.boolean(not alias))
