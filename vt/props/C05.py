"""C05 - explicit Runge-Kutta integrators meet their order conditions for every RHS."""
from fractions import Fraction
from . import stubs

ID = 'C05'
FUNCTIONS = ['flowdyn.integration.explicit.step', 'flowdyn.integration.rk2.step', 'flowdyn.integration.rkmodel.check',
             'flowdyn.integration.rkmodel.step', 'flowdyn.integration.LSrkmodelHH.check', 'flowdyn.integration.LSrkmodelHH.step',
             'flowdyn.integration.timemodel.add_res', 'flowdyn.integration.timemodel.calcrhs', 'flowdyn.integration.timemodel.propagator',
             'flowdyn.field.fdata.{__init__,copy,set}',
             'class attributes _butcher/_beta of rk2_heun, rk3_heun, rk3ssp, rk4, lsrk25bb, lsrk26bb, lsrk4']
BOUNDS = ('(second-step clause: the same integrator object steps again from any state, time and dt on a two-equation field) '
          'the right-hand side is a stub returning fresh unconstrained values at every call (any RHS: nonlinear, '
          'non-autonomous); field of 2 components (the step is componentwise); y0, dt, t0 symbolic; all explicit classes '
          'of flowdyn.integration. No bound on the RHS.')
OUTSIDE = ('double rounding of the coefficients: order conditions are asserted to 8*2^-53, the published Bogey-Bailly '
           'polynomial coefficients to 1e-9 (12 printed digits)')
ASSUMPTIONS = ['order conditions up to order 4 are the classical Butcher tree conditions (with c_i = sum_j a_ij they are '
               'sufficient for non-autonomous right-hand sides)',
               'SSP: a Shu-Osher decomposition with all alpha>=0, beta<=alpha is a convex combination of forward-Euler '
               'steps with SSP coefficient >= 1']
EXPLANATION = ('The tableau (A,b,c) is extracted by running the real step on unit stub responses, then z3 proves for ALL '
               'y0,dt,t0,K that every stage argument, stage time and the result are the Runge-Kutta combination with '
               'exactly these constants; the order conditions are then decided on the constants.')

ORDER = {'explicit': 1, 'forwardeuler': 1, 'rk2': 2, 'rk2_heun': 2, 'rk3_heun': 3, 'rk3ssp': 3, 'rk4': 4,
         'lsrk25bb': 2, 'lsrk26bb': 2, 'lsrk4': 2}
SSP = ['rk3ssp', 'rk2_heun', 'explicit']
BB = {'lsrk25bb': ['1', '1', '1/2', '0.165250353664', '0.039372585984', '0.007149096448'],
      'lsrk26bb': ['1', '1', '1/2', '0.165919771368', '0.040919732041', '0.007555704391', '0.000891421261'],
      'lsrk4': ['1', '1', '1/2', '1/6', '1/24']}
TOL = Fraction(8, 2 ** 53)


def configs(tier):
    return ([{'integrator': k} for k in ORDER] + [{'integrator': k, 'dt': 'local'} for k in ORDER] +
            [{'integrator': k, 'part': 'second-step'} for k in ORDER] +
            [{'integrator': k, 'part': 'second-step', 'reuse': True} for k in ORDER])


def _tableau(B, name, n):
    """(s, A, b, c) read from the real step on unit stub responses"""
    zero = B.array([B.const(0)] * n)
    one = B.array([B.const(1)] * n)
    _, d0, _ = _run(B, name, zero.copy(), B.const(1), B.const(0))
    s = len(d0.calls)
    A = [[B.const(0)] * s for _ in range(s)]
    b = [B.const(0)] * s
    for j in range(s):
        def fn(k, time, data, j=j):
            return [(one if k == j else zero).copy()]
        _, dj, fj = _run(B, name, zero.copy(), B.const(1), B.const(0), fn=fn)
        for i in range(min(s, len(dj.calls))):
            A[i][j] = dj.calls[i][1][0][0]
        b[j] = fj.data[0][0]
    c = []
    for i in range(s):
        rs = B.const(0)
        for j in range(s):
            rs = rs + A[i][j]
        c.append(rs)
    return s, A, b, c


def _second_step(cfg, B):
    """the SAME integrator object takes a second step (another dt, another state, a field with two equations): the step is again
    the Runge-Kutta scheme of the extracted tableau - nothing is carried over from the first step, no equation is mixed with another"""
    name = cfg['integrator']
    n, neq = 2, 2
    s, A, b, c = _tableau(B, name, n)
    # 'reuse': the right-hand side object returns the same array objects at every call (work arrays allocated once)
    solver, disc, model, mesh = stubs.make(B, name, n=n, neq=neq, reuse=bool(cfg.get('reuse')))
    t0, dt1, dt2 = B.var('t0'), B.pos('dt1'), B.pos('dt2')
    f = B.fd.field.fdata(model, mesh, [B.vararray('y%d' % q, n) for q in range(neq)], t=t0)
    solver.step(f, dt1)
    B.ob('first-step:stage-count', 'true', B.boolean(len(disc.calls) == s), meta={'calls': len(disc.calls)})
    # from ANY state and time (generalises the state reached by the first step)
    y1 = [B.vararray('z%d' % q, n) for q in range(neq)]
    t1 = B.var('t1')
    f.data = [y.copy() for y in y1]
    f.time = t1
    solver.step(f, dt2)
    B.ob('second-step:stage-count', 'true', B.boolean(len(disc.calls) == 2 * s), meta={'calls': len(disc.calls)})
    if len(disc.calls) != 2 * s:
        return
    K = disc.results[s:]
    for i in range(s):
        ti, Yi = disc.calls[s + i]
        B.ob('second-step:stage-time[%d]' % i, 'le', abs(ti - (t1 + c[i] * dt2)), B.const(TOL) * dt2, tol=1e-9)
        for q in range(neq):
            for m in range(n):
                ref = y1[q][m]
                for j in range(s):
                    ref = ref + dt2 * (A[i][j] * K[j][q][m])
                B.ob('second-step:stage-arg[%d]:eq%d[%d]' % (i, q, m), 'eq', Yi[q][m], ref)
    for q in range(neq):
        for m in range(n):
            ref = y1[q][m]
            for j in range(s):
                ref = ref + dt2 * (b[j] * K[j][q][m])
            B.ob('second-step:result:eq%d[%d]' % (q, m), 'eq', f.data[q][m], ref)
    B.ob('second-step:time-advance', 'le', abs(f.time - (t1 + dt2)), B.const(TOL) * dt2, tol=1e-9)


def _run(B, name, y0, dt, t0, fn=None, n=2):
    solver, disc, model, mesh = stubs.make(B, name, n=n, fn=fn)
    f = B.fd.field.fdata(model, mesh, [y0], t=t0)
    solver.step(f, dt)
    return solver, disc, f


def harness(cfg, B):
    if cfg.get('part') == 'second-step':
        return _second_step(cfg, B)
    name = cfg['integrator']
    n = 2
    y0 = B.vararray('y', n)
    local = cfg.get('dt') == 'local'
    if local:
        # local time stepping: a per-cell array of steps; every cell advances with its own value, the field time with the minimum
        dtv = B.vararray('dtl', n, positive=True)
        dt = B.np.minimum(dtv[0], dtv[1])
    else:
        dtv = None
        dt = B.pos('dt')
    t0 = B.var('t0')
    solver, disc, f = _run(B, name, y0, dtv if local else dt, t0)
    s = len(disc.calls)
    B.case.info['stages'] = s
    zero = B.array([B.const(0)] * n)
    one = B.array([B.const(1)] * n)

    # ---- tableau extraction on unit responses (exact rationals in symbolic mode)
    A = [[B.const(0)] * s for _ in range(s)]
    b = [B.const(0)] * s
    for j in range(s):
        def fn(k, time, data, j=j):
            return [(one if k == j else zero).copy()]
        _, dj, fj = _run(B, name, zero.copy(), B.const(1), B.const(0), fn=fn)
        B.ob('stage-count-constant[%d]' % j, 'true', B.boolean(len(dj.calls) == s))
        for i in range(min(s, len(dj.calls))):
            A[i][j] = dj.calls[i][1][0][0]
        b[j] = fj.data[0][0]
    # abscissae: c_i = sum_j a_ij (the definition for which the classical order conditions are stated)
    c = []
    for i in range(s):
        rs = B.const(0)
        for j in range(s):
            rs = rs + A[i][j]
        c.append(rs)
    B.case.info['tableau'] = {'A': [[str(x) for x in row] for row in A], 'b': [str(x) for x in b], 'c': [str(x) for x in c]}

    # ---- the real step IS this Runge-Kutta scheme, for every RHS
    K = disc.results
    for i in range(s):
        ti, Yi = disc.calls[i]
        # time presented to stage i = t + c_i dt (to the rounding of the code's own coefficient sums)
        B.ob('stage-time[%d]' % i, 'le', abs(ti - (t0 + c[i] * dt)), B.const(TOL) * dt, tol=1e-9)
        for m in range(n):
            ref = y0[m]
            for j in range(s):
                ref = ref + (dtv[m] if local else dt) * (A[i][j] * K[j][0][m])
            B.ob('stage-arg[%d][%d]' % (i, m), 'eq', Yi[0][m], ref)
        for j in range(i, s):
            B.ob('explicit:A[%d][%d]=0' % (i, j), 'eq', A[i][j], B.const(0))
    for m in range(n):
        ref = y0[m]
        for j in range(s):
            ref = ref + (dtv[m] if local else dt) * (b[j] * K[j][0][m])
        B.ob('result[%d]' % m, 'eq', f.data[0][m], ref)
    if local:
        B.ob('time-advance-by-the-minimum', 'le', abs(f.time - (t0 + dt)), B.const(TOL) * dt, tol=1e-9)
        return
    B.ob('time-advance', 'le', abs(f.time - (t0 + dt)), B.const(TOL) * dt, tol=1e-9)

    # ---- order conditions on the constants
    tol = B.const(TOL)

    def cond(nm, val, target):
        B.ob('order:' + nm, 'le', abs(val - B.const(Fraction(target))), tol, tol=1e-9, meta={'target': str(target)})
    p = ORDER[name]
    sm = lambda it: sum(it, B.const(0))
    cond('sum b', sm(b[i] for i in range(s)), 1)
    if p >= 2:
        cond('sum b c', sm(b[i] * c[i] for i in range(s)), Fraction(1, 2))
    if p >= 3:
        cond('sum b c^2', sm(b[i] * c[i] * c[i] for i in range(s)), Fraction(1, 3))
        cond('sum b A c', sm(b[i] * A[i][j] * c[j] for i in range(s) for j in range(s)), Fraction(1, 6))
    if p >= 4:
        cond('sum b c^3', sm(b[i] * c[i] ** 3 for i in range(s)), Fraction(1, 4))
        cond('sum b c A c', sm(b[i] * c[i] * A[i][j] * c[j] for i in range(s) for j in range(s)), Fraction(1, 8))
        cond('sum b A c^2', sm(b[i] * A[i][j] * c[j] * c[j] for i in range(s) for j in range(s)), Fraction(1, 12))
        cond('sum b A A c', sm(b[i] * A[i][j] * A[j][k] * c[k] for i in range(s) for j in range(s) for k in range(s)),
             Fraction(1, 24))

    # ---- SSP: canonical Shu-Osher form  Y_i = sum_k alpha_ik Y_k + dt beta_i F(Y_{i-1})
    if name in SSP:
        rows = [list(A[i]) for i in range(s)] + [list(b)]      # row s = the result
        for i in range(1, s + 1):
            row = rows[i]
            beta = row[i - 1]
            alpha = [B.const(0)] * i
            # solve alpha_{i,k} for k = i-1 .. 1 from the coefficients of K_{k-1}
            for k in range(i - 1, 0, -1):
                acc = row[k - 1]
                for kk in range(k + 1, i):
                    acc = acc - alpha[kk] * rows[kk][k - 1]
                alpha[k] = acc / rows[k][k - 1]
            alpha[0] = B.const(1) - sm(alpha[k] for k in range(1, i))
            for k in range(i):
                B.ob('ssp:alpha[%d][%d]>=0' % (i, k), 'le', -tol, alpha[k], tol=1e-9)
            B.ob('ssp:beta[%d]>=0' % i, 'le', -tol, beta, tol=1e-9)
            B.ob('ssp:beta[%d]<=alpha[%d][%d]' % (i, i, i - 1), 'le', beta, alpha[i - 1] + tol, tol=1e-9)

    # ---- low-storage schemes: stability polynomial through the real propagator()
    if name in BB:
        want = [Fraction(x) for x in BB[name]]
        deg = len(want) - 1
        ptol = B.const(TOL if name == 'lsrk4' else Fraction(1, 10 ** 9))
        solver2, _, _, _ = stubs.make(B, name, n=1)
        vals = []
        for k in range(deg + 2):
            g = solver2.propagator(B.const(k))
            vals.append(g[0] if hasattr(g, '__len__') else g)
        # Newton forward differences -> monomial coefficients (exact in symbolic mode)
        coef = _newton_to_monomial(B, vals)
        for k in range(deg + 1):
            B.ob('stabpoly:c[%d]' % k, 'le', abs(coef[k] - B.const(want[k])), ptol, tol=1e-9, meta={'published': str(want[k])})
        B.ob('stabpoly:degree', 'le', abs(coef[deg + 1]), B.const(TOL), tol=1e-9)
        z = B.var('z')
        gz = solver2.propagator(z)
        gz = gz[0] if hasattr(gz, '__len__') else gz
        ref = B.const(0)
        for k in range(deg, -1, -1):
            ref = ref * z + coef[k]
        B.ob('stabpoly:identity', 'eq', gz, ref)


def _newton_to_monomial(B, vals):
    """coefficients of the interpolating polynomial through (k, vals[k]), k = 0..m"""
    m = len(vals) - 1
    # divided differences on integer nodes
    dd = list(vals)
    coefs_newton = [dd[0]]
    for order in range(1, m + 1):
        dd = [(dd[i + 1] - dd[i]) / B.const(order) for i in range(len(dd) - 1)]
        coefs_newton.append(dd[0])
    # expand sum_k cn[k] * prod_{j<k} (x - j)
    poly = [B.const(0)] * (m + 1)
    basis = [B.const(1)] + [B.const(0)] * m
    for k in range(m + 1):
        for d in range(m + 1):
            poly[d] = poly[d] + coefs_newton[k] * basis[d]
        # basis *= (x - k)
        nb = [B.const(0)] * (m + 1)
        for d in range(m + 1):
            if d + 1 <= m:
                nb[d + 1] = nb[d + 1] + basis[d]
            nb[d] = nb[d] - basis[d] * B.const(k)
        basis = nb
    return poly
