"""C20 - meshes are valid partitions with consistent connectivity."""
from fractions import Fraction
from . import common as cm

ID = 'C20'
FUNCTIONS = ['flowdyn.mesh.mesh1d.__init__', 'flowdyn.mesh.mesh1d.calc_centers', 'flowdyn.mesh.mesh1d.vol',
             'flowdyn.mesh.mesh1d.dx', 'flowdyn.mesh.refinedmesh.__init__', 'flowdyn.mesh.morphedmesh.__init__',
             'flowdyn.meshbase.virtualmesh.{average,L1average,L2average}',
             'flowdyn.mesh2d.mesh2d.{__init__,nbfaces,centers,dx,dy,vol,index_of_bc,bcface_orientation,normal_of_bc}',
             'flowdyn.xnum.extrapol2d1.interp_face (as the oracle of the face ordering)']
BOUNDS = ('1D: ncell in 1..8 (quick 1..5) enumerated, length>0, x0, ratio>0 symbolic; refined: (nratioa,nratiob) in a '
          'small enumerated set; morph = s*x + t*x^3 + r with symbolic s>0,t>=0,r (replayable) and an uninterpreted '
          'increasing function (monotonicity instantiated on the face abscissae). 2D: (nx,ny) in {1..4}^2 (quick {1..3}^2) '
          'enumerated, lx,ly>0 symbolic')
OUTSIDE = 'float round-off of linspace; ncell, nx, ny beyond the enumerated sizes (the constructors are size-generic loops/slices)'
ASSUMPTIONS = ['numpy.linspace modelled by its exact-real value start + i*(stop-start)/div']
EXPLANATION = 'Discrete parameters are enumerated, continuous ones are solver variables.'


def configs(tier):
    out = []
    ns = range(1, 6) if tier == 'quick' else range(1, 9)
    for n in ns:
        out.append({'mesh': 'uni', 'n': n})
        out.append({'mesh': 'morphed', 'n': n, 'morph': 'cubic'})
        out.append({'mesh': 'morphed', 'n': n, 'morph': 'uf'})
    ab = [(1, 1), (1, 2), (2, 1), (1, 3), (3, 1)] if tier == 'quick' else [(1, 1), (1, 2), (2, 1), (1, 3), (3, 1), (2, 3), (3, 2), (1, 4), (1, '1/2')]
    for n in ([2, 3, 4, 6] if tier == 'quick' else [1, 2, 3, 4, 5, 6, 8, 9]):
        for a, b in ab:
            out.append({'mesh': 'refined', 'n': n, 'a': a, 'b': b})
    m = 3 if tier == 'quick' else 4
    for nx in range(1, m + 1):
        for ny in range(1, m + 1):
            out.append({'mesh': '2d', 'nx': nx, 'ny': ny})
    return out


def _partition_obs(B, me, n, x_lo, x_hi, span_name='span'):
    np = B.np
    xf = me.xf
    B.ob('nfaces', 'true', B.boolean(len(xf) == n + 1 and me.nbfaces() == n + 1), meta={'len': len(xf)})
    if len(xf) != n + 1:
        return
    for i in range(n):
        B.ob('increasing[%d]' % i, 'lt', xf[i], xf[i + 1])
    B.ob('first-face', 'eq', xf[0], x_lo)
    B.ob('last-face', 'eq', xf[n], x_hi)
    xc = me.centers()
    B.ob('ncenters', 'true', B.boolean(len(xc) == n))
    for i in range(n):
        B.ob('centre-midpoint[%d]' % i, 'eq', xc[i], (xf[i] + xf[i + 1]) / 2)
    vol = me.vol()
    B.ob('nvol', 'true', B.boolean(len(vol) == n))
    tot = 0
    for i in range(n):
        B.ob('vol>0[%d]' % i, 'lt', B.const(0), vol[i])
        B.ob('vol=dx[%d]' % i, 'eq', vol[i], xf[i + 1] - xf[i])
        tot = tot + vol[i]
    B.ob('sum-vol=span', 'eq', tot, x_hi - x_lo)
    B.ob('mesh.length=sum-vol', 'eq', me.length + 0 * tot, tot)
    # volume weighted averages
    k = B.var('k')
    const = B.array([k] * n)
    B.ob('average(const)', 'eq', me.average(const), k)
    B.ob('L1average(const)', 'eq', me.L1average(const), abs(k))
    l2 = me.L2average(const)
    B.ob('L2average(const)>=0', 'le', B.const(0), l2)
    B.ob('L2average(const)^2', 'eq', l2 * l2, k * k)
    d = B.vararray('d', n)
    ref = 0
    for i in range(n):
        ref = ref + (xf[i + 1] - xf[i]) * d[i]
    B.ob('average(data)*span', 'eq', me.average(d) * (x_hi - x_lo), ref)


def harness(cfg, B):
    _harness(cfg, B)


def _decoys(B, fd):
    """other meshes created after the one under test (before it is inspected)"""
    fd.mesh.unimesh(ncell=7, length=B.const(3), x0=B.const(1))
    fd.mesh.refinedmesh(ncell=6, length=B.const(2), ratio=B.const(3))
    fd.mesh.morphedmesh(ncell=5, length=B.const(1), morph=lambda x: x * x)


def _harness(cfg, B):
    fd = B.fd
    np = B.np
    kind = cfg['mesh']
    if kind == 'uni':
        n = cfg['n']
        Lh = B.pos('L')
        x0 = B.var('x0')
        me = fd.mesh.unimesh(ncell=n, length=Lh, x0=x0)
        _decoys(B, fd)
        _partition_obs(B, me, n, x0, x0 + Lh)
        for i in range(n):
            B.ob('uniform[%d]' % i, 'eq', me.vol()[i], Lh / n)
    elif kind == 'refined':
        n = cfg['n']
        a, b = Fraction(cfg['a']), Fraction(cfg['b'])
        Lh = B.pos('L')
        ratio = B.pos('ratio')
        av = int(a) if a.denominator == 1 else float(a)
        bv = int(b) if b.denominator == 1 else float(b)
        me = fd.mesh.refinedmesh(ncell=n, length=Lh, ratio=ratio, nratioa=av, nratiob=bv)
        _decoys(B, fd)
        _partition_obs(B, me, n, B.const(0), Lh)
        whole = (n * a / (a + b)).denominator == 1
        nc1 = int(n * a / (a + b))
        if len(me.xf) == n + 1:
            vol = me.vol()
            for i in range(1, nc1):
                B.ob('zone1-uniform[%d]' % i, 'eq', vol[i], vol[0])
            for i in range(nc1 + 1, n):
                B.ob('zone2-uniform[%d]' % i, 'eq', vol[i], vol[nc1])
            if whole and 0 < nc1 < n:
                B.ob('zone-ratio', 'eq', vol[nc1], ratio * vol[0], meta={'nc1': nc1})
    elif kind == 'morphed':
        n = cfg['n']
        Lh = B.pos('L')
        x0 = B.var('x0')
        if cfg['morph'] == 'cubic':
            s = B.pos('ms')
            t = B.pos('mt', 0.0, 1.0)
            r = B.var('mr')

            def morph(x):
                return s * x + t * x * x * x + r
            replayable = True
        else:
            replayable = False
            if B.symbolic:
                from vt import term as tm
                from vt.sym import P, L as lift
                pts = []

                def m1(v):
                    v = lift(v)
                    pts.append(v)
                    return P(tm.uf('morph', v))

                def morph(x):
                    out = B.np.frompyfunc(m1, 1, 1)(x.view(B.np.ndarray) if hasattr(x, 'view') else x)
                    # contract of a strictly increasing morphing, instantiated on consecutive abscissae
                    for i in range(len(pts) - 1):
                        B.assume(P(pts[i]) < P(pts[i + 1]))
                        B.case.assume.append(tm.lt(tm.uf('morph', pts[i]), tm.uf('morph', pts[i + 1])))
                    return B.array(list(out))
                B.note('morph: uninterpreted strictly increasing function (monotonicity instantiated on consecutive face abscissae)')
            else:
                def morph(x):
                    return x + 0.3 * np.sin(x)
        me = fd.mesh.morphedmesh(ncell=n, length=Lh, x0=x0, morph=morph)
        _decoys(B, fd)
        lo = morph(B.array([x0]))[0] if cfg['morph'] == 'cubic' else me.xf[0]
        hi = morph(B.array([x0 + Lh]))[0] if cfg['morph'] == 'cubic' else me.xf[-1]
        _partition_obs(B, me, n, lo, hi)
        if not replayable:
            for o in B.case.obs:
                o.replayable = False
        # faces are the images of the uniform faces
        if cfg['morph'] == 'cubic' and len(me.xf) == n + 1:
            for i in range(n + 1):
                B.ob('face=morph(uniform)[%d]' % i, 'eq', me.xf[i], morph(B.array([x0 + Lh * B.const(Fraction(i, n))]))[0])
    else:
        nx, ny = cfg['nx'], cfg['ny']
        lx, ly = B.pos('lx'), B.pos('ly')
        me = cm.mesh2d(B, fd, nx, ny, lx, ly)
        nc = nx * ny
        nf = (nx + 1) * ny + nx * (ny + 1)
        B.ob('ncell', 'true', B.boolean(me.ncell == nc))
        B.ob('nbfaces', 'true', B.boolean(me.nbfaces() == nf), meta={'nbfaces': int(me.nbfaces())})
        vol = me.vol()
        B.ob('nvol', 'true', B.boolean(len(vol) == nc))
        for i in range(min(len(vol), nc)):
            B.ob('vol=dx*dy[%d]' % i, 'eq', vol[i], (lx / nx) * (ly / ny))
        B.ob('dx', 'eq', me.dx(), lx / nx)
        B.ob('dy', 'eq', me.dy(), ly / ny)
        xx, yy = me.centers()
        B.ob('ncenters', 'true', B.boolean(len(xx) == nc and len(yy) == nc))
        if len(xx) == nc:
            for j in range(ny):
                for i in range(nx):
                    B.ob('xc[%d,%d]' % (i, j), 'eq', xx[j * nx + i], lx * B.const(Fraction(2 * i + 1, 2 * nx)))
                    B.ob('yc[%d,%d]' % (i, j), 'eq', yy[j * nx + i], ly * B.const(Fraction(2 * j + 1, 2 * ny)))
        k = B.var('k')
        B.ob('average(const)', 'eq', me.average(B.array([k] * nc)), k)
        # adjacency from the code's own face ordering: distribute the cell index through the real 1st order interp
        import numpy as rnp

        class _F:   # minimal stand-in for the field argument of interp_face (zero_datalist only)
            def __init__(s, data):
                s.data = data
            zero_datalist = fd.field.fdata.zero_datalist
        ids = rnp.arange(1, nc + 1, dtype=float)
        data = [ids.copy()]
        Lf, Rf = fd.xnum.extrapol2d1().interp_face(me, data, _F(data), 1)
        Lc = [int(float(v)) for v in Lf[0]]
        Rc = [int(float(v)) for v in Rf[0]]
        B.ob('face-arrays-size', 'true', B.boolean(len(Lc) == nf and len(Rc) == nf))
        boundary = {f for f in range(nf) if (Lc[f] == 0) != (Rc[f] == 0)}
        interior = {f for f in range(nf) if Lc[f] != 0 and Rc[f] != 0}
        B.ob('every-face-has-a-cell', 'true', B.boolean(len(boundary) + len(interior) == nf))
        tags = list(me.list_of_bctags())
        B.ob('four-tags', 'true', B.boolean(sorted(tags) == ['bottom', 'left', 'right', 'top']))
        sets = {t: [int(i) for i in me.index_of_bc(t)] for t in tags}
        allidx = [i for t in tags for i in sets[t]]
        B.ob('tags-disjoint', 'true', B.boolean(len(allidx) == len(set(allidx))), meta={'sets': sets})
        B.ob('tags-cover-boundary', 'true', B.boolean(set(allidx) == boundary),
             meta={'boundary': sorted(boundary), 'tagged': sorted(allidx)})
        nxface = ny * (nx + 1)
        expect_n = {'left': (-1, 0), 'right': (1, 0), 'bottom': (0, -1), 'top': (0, 1)}
        for t in tags:
            ori = me.bcface_orientation(t)
            # outward: the interior cell is on the L side; inward: on the R side
            okside = all(((Lc[f] != 0 and Rc[f] == 0) if ori == 'outward' else (Rc[f] != 0 and Lc[f] == 0)) for f in sets[t]
                         if f < nf)
            B.ob('orientation-consistent:' + t, 'true', B.boolean(okside and ori in ('inward', 'outward')))
            B.ob('count:' + t, 'true', B.boolean(len(sets[t]) == (ny if t in ('left', 'right') else nx)))
            okaxis = all((f < nxface) == (t in ('left', 'right')) for f in sets[t])
            B.ob('axis-consistent:' + t, 'true', B.boolean(okaxis))
            nrm = me.normal_of_bc(t)
            oknorm = tuple(rnp.shape(nrm)) == (2, len(sets[t])) and all(
                (float(nrm[0][k]), float(nrm[1][k])) == tuple(float(v) for v in expect_n[t]) for k in range(len(sets[t])))
            B.ob('outward-unit-normal:' + t, 'true', B.boolean(oknorm))
            # the adjacent cell is the geometrically right one (row-wise numbering)
            okcell = True
            for k, f in enumerate(sets[t]):
                if f >= nf:
                    okcell = False
                    continue
                cell = (Lc[f] or Rc[f]) - 1
                i, j = cell % nx, cell // nx
                want = {'left': (0, k), 'right': (nx - 1, k), 'bottom': (k, 0), 'top': (k, ny - 1)}[t]
                okcell = okcell and (i, j) == want
            B.ob('adjacent-cell:' + t, 'true', B.boolean(okcell))
