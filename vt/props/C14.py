"""C14 - periodic boundaries are seamless (translation invariance)."""
from . import common as cm

ID = 'C14'
FUNCTIONS = ['flowdyn.mesh.mesh1d.__init__ (uniform)', 'flowdyn.modeldisc.base.rhs',
             'flowdyn.modeldisc.fvm1d.{calc_grad,calc_bc_grad,interp_face,calc_bc,calc_flux,calc_res}',
             'flowdyn.modeldisc.fvm2dcart.{calc_grad,calc_bc_grad,interp_face,calc_bc,calc_flux,calc_res}',
             'flowdyn.mesh2d.mesh2d.{index_of_bc,bcface_orientation}', 'flowdyn.xnum.* interp_face (1D and 2D)',
             'flowdyn.modelphy.* numflux (all registered)']
BOUNDS = ('uniform periodic meshes built by the real constructors with symbolic length(s): 1D n in {2,3,4,5} (quick {3,4}; '
          '2 and 3 make the stencil overlap itself), every shift k; 2D (nx,ny) in {2,3}^2 + (4,2),(2,4) (quick (3,2),(2,3)), '
          'shifts along x and along y; all cell data symbolic admissible; all models x fluxes x reconstructions (quick: a '
          'representative subset); operator level (one evaluation of the space operator)')
OUTSIDE = ('integrator level follows from C05/C06/C07 (the integrators combine residuals componentwise) and is not re-proved '
           'here; float round-off (the two runs execute the same operations on permuted data)')
ASSUMPTIONS = []
EXPLANATION = 'Two symbolic runs of the real operator: R(roll(Q,k)) == roll(R(Q),k), componentwise, for all data.'


def configs(tier):
    out = []
    if tier == 'quick':
        ns = [3, 4]
        combos = [('convection', None, 'extrapol3'), ('convection', None, 'muscl:vanleer'), ('burgers', None, 'muscl:minmod'),
                  ('shallowwater', 'hll', 'muscl:superbee'), ('shallowwater', 'rusanov', 'extrapol1'),
                  ('euler1d', 'hllc', 'muscl:vanalbada'), ('euler1d', 'hlle', 'extrapol3'), ('euler1d', 'centered', 'extrapol2'),
                  ('euler1d', 'centeredmassflow', 'extrapolk')]
    else:
        ns = [2, 3, 4, 5]
        combos = [(m, fl, num) for m, fls in cm.FLUXES.items() if m != 'nozzle' for fl in fls for num in cm.NUMS_ALL]
    for m, fl, num in combos:
        for n in ns:
            c = {'dim': 1, 'model': m, 'flux': fl, 'num': num, 'n': n, 'mesh': 'uniform'}
            if m == 'burgers':
                c.update(explore=True, no_feasibility=True, n=min(n, 3))
            if c not in out:
                out.append(c)
    grids = [(3, 2), (2, 3)] if tier == 'quick' else [(2, 2), (3, 2), (2, 3), (3, 3), (4, 2), (2, 4)]
    for nx, ny in grids:
        for fl in ('centered', 'hlle'):
            for num in ('extrapol2d1', 'extrapol2dk'):
                out.append({'dim': 2, 'nx': nx, 'ny': ny, 'flux': fl, 'num': num})
    return out


def harness(cfg, B):
    np = B.np
    import numpy as rnp
    fd = B.fd
    if cfg['dim'] == 1:
        d = cm.build1d(B, cfg)
        rhs, n, model, mesh = d['rhs'], d['n'], d['model'], d['mesh']
        RA = [r.copy() for r in rhs.rhs(d['field'])]
        for k in range(1, n):
            cons = [rnp.roll(q, k) for q in d['cons']]
            RB = rhs.rhs(fd.field.fdata(model, mesh, cons))
            for e in range(model.neq):
                B.eq_arrays('shift%d:eq%d' % (k, e), RB[e], rnp.roll(RA[e], k), method='sweep')
    else:
        d = cm.build2d(B, cfg)
        rhs, nx, ny, model, mesh = d['rhs'], d['nx'], d['ny'], d['model'], d['mesh']
        RA = [r.copy() for r in rhs.rhs(d['field'])]

        def roll2(q, kx, ky):
            if q.ndim == 1:
                return rnp.roll(rnp.roll(q.reshape(ny, nx), kx, axis=1), ky, axis=0).reshape(-1)
            return rnp.roll(rnp.roll(q.reshape(2, ny, nx), kx, axis=2), ky, axis=1).reshape(2, -1)
        shifts = [(kx, 0) for kx in range(1, nx)] + [(0, ky) for ky in range(1, ny)] + [(1, 1)]
        for kx, ky in shifts:
            cons = [roll2(q, kx, ky) for q in d['cons']]
            RB = rhs.rhs(fd.field.fdata(model, mesh, cons))
            B.eq_arrays('shift(%d,%d):mass' % (kx, ky), RB[0], roll2(RA[0], kx, ky), method='sweep')
            B.eq_arrays('shift(%d,%d):mom' % (kx, ky), RB[1], roll2(RA[1], kx, ky), method='sweep')
            B.eq_arrays('shift(%d,%d):energy' % (kx, ky), RB[2], roll2(RA[2], kx, ky), method='sweep')
