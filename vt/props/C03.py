"""C03 - uniform and compatible steady states are fixed points."""
from fractions import Fraction
from . import common as cm
from . import stubs

ID = 'C03'
FUNCTIONS = ['flowdyn.modeldisc.base.rhs', 'flowdyn.modeldisc.fvm1d.*', 'flowdyn.modeldisc.fvm2dcart.*', 'flowdyn.xnum.* (all reconstructions, limiters)',
             'flowdyn.modelphy.* numflux (all registered)', 'flowdyn.modelphy.euler.euler1d.bc_* / euler2d.bc_*', 'flowdyn.modelphy.base.model.bc_dirichlet',
             'flowdyn.modelphy.euler.euler.{ptot,rttot,pressure} (boundary parameters computed from the state itself)',
             'flowdyn.modelphy.euler.nozzle.{initdisc,src_mass,src_mom,src_energy}', 'flowdyn.integration.*.step (all classes)',
             'flowdyn.integration.implicitmodel.{calc_jacobian,solve_implicit}']
BOUNDS = ('operator level: n=4 cells with arbitrary monotone faces (1D), 3x2 grid with lx,ly symbolic (2D); every cell holds the '
          'same symbolic admissible state (any Mach number; the flow direction required by the boundary pair, any angle when '
          'periodic); all fluxes x all reconstructions (quick: representative subset) x boundary pairs {periodic, dirichlet, '
          'inlet/outlet pairs in both orientations with ptot, rttot, p computed by the real variable functions}; gamma 2 (quick; 7/5 in the quick tier only as a bounded search with a 3 s solver timeout) '
          '+ 7/5 (thorough). Integrator level: one step of every integrator on a stub RHS constrained only by "RHS(W)=0" '
          '(K = M_j.(data-W), M_j fresh per call), scalar and per-cell dt, including a state with an identically zero component')
OUTSIDE = 'round-off residual (1e-16 level) of the real floats; gamma other than listed'
ASSUMPTIONS = ['any number of steps: induction from the one-step obligation', 'implicit family: the linear system is regular (det != 0 assumed, 2x2/4x4)']
EXPLANATION = 'Assertion: every residual component is exactly zero / the step returns the state unchanged and finite.'

PAIRS = [('insub', 'outsub'), ('insub_cbc', 'outsub_prim'), ('insub', 'outsub_qtot'), ('insub_cbc', 'outsub_rh'), ('insub', 'outsub_nrcbc'),
         ('insup', 'outsup'), ('dirichlet', 'dirichlet'), ('insup', 'outsub'), ('insub_cbc', 'outsub_nrcbc')]
INTEGS = ['explicit', 'rk2', 'rk2_heun', 'rk3_heun', 'rk3ssp', 'rk4', 'lsrk25bb', 'lsrk26bb', 'lsrk4', 'implicit', 'trapezoidal', 'gear']


def configs(tier):
    out = []
    q = tier == 'quick'
    gs = ['2'] if q else ['2', '7/5']
    combos = [('euler1d', 'hllc', 'muscl:vanalbada'), ('euler1d', 'hlle', 'extrapol3'), ('euler1d', 'centered', 'extrapol1')] if q else \
        [('euler1d', fl, num) for fl in cm.FLUXES['euler1d'] for num in ['extrapol1', 'extrapol3', 'muscl:vanalbada']]
    for g in gs:
        for m, fl, num in (combos if g == '2' else combos[:1] + combos[4:6] + combos[-1:]):
            out.append({'level': 'op1d', 'model': m, 'flux': fl, 'num': num, 'bc': 'per', 'gamma': g})
            for a, b in (PAIRS[:6] if q and num != 'extrapol3' else PAIRS):
                for orient in ('lr', 'rl'):
                    out.append({'level': 'op1d', 'model': m, 'flux': fl, 'num': num, 'bc': [a, b], 'orient': orient, 'gamma': g})
    if q:
        # gamma = 2 makes the exponents of the total-condition formulas trivial: the quick tier also runs gamma = 7/5 with a short solver
        # timeout (bounded search for violations by simulation-guided models, replayed); the proofs are in the thorough tier
        for a, b in PAIRS:
            for orient in ('lr', 'rl'):
                out.append({'level': 'op1d', 'model': 'euler1d', 'flux': 'centered', 'num': 'extrapol1', 'bc': [a, b], 'orient': orient,
                            'gamma': '7/5', 'timeout_ms': 3000, 'sweep_budget_s': 10, 'guided_tries': 300})
    for m, fls in (('convection', [None]), ('burgers', [None]), ('shallowwater', cm.FLUXES['shallowwater'])):
        for fl in fls:
            for num in (['muscl:vanleer'] if q else ['extrapol1', 'extrapol3', 'muscl:vanleer', 'muscl:minmod']):
                c = {'level': 'op1d', 'model': m, 'flux': fl, 'num': num, 'bc': 'per'}
                if m == 'burgers':
                    c.update(explore=True, no_feasibility=True, n=3)
                out.append(c)
                out.append(dict(c, bc=['dirichlet', 'dirichlet'], orient='lr'))
    for g in gs:
        for law in ('quadratic',):
            out.append({'level': 'nozzle', 'flux': 'hlle', 'num': 'muscl:minmod', 'gamma': g, 'law': law})
            out.append({'level': 'nozzle', 'flux': 'hllc', 'num': 'extrapol1', 'gamma': g, 'law': law})
        for fl in ('centered', 'hlle'):
            for num in ('extrapol2d1', 'extrapol2dk'):
                out.append({'level': 'op2d', 'flux': fl, 'num': num, 'bc': 'per', 'gamma': g, 'nx': 3, 'ny': 2})
                for duct in ('x+', 'x-', 'y+', 'y-'):
                    for kind in ('sub', 'sup'):
                        out.append({'level': 'op2d', 'flux': fl, 'num': num, 'bc': 'duct', 'duct': duct, 'kind': kind, 'gamma': g,
                                    'nx': 3, 'ny': 2})
    for integ in INTEGS:
        ex = {'explore': True} if integ in ('implicit', 'trapezoidal', 'gear') else {}    # python-level branch on the field scale
        if integ == 'gear':
            ex['timeout_ms'] = 120000
        out.append(dict({'level': 'integrator', 'integrator': integ, 'dt': 'scalar'}, **ex))
        out.append(dict({'level': 'integrator', 'integrator': integ, 'dt': 'local'}, **ex))
        out.append(dict({'level': 'integrator', 'integrator': integ, 'dt': 'scalar', 'zero_component': True}, **ex))
    return out


def harness(cfg, B):
    return {'op1d': _op1d, 'op2d': _op2d, 'nozzle': _nozzle, 'integrator': _integrator}[cfg['level']](cfg, B)


def _uniform_state(B, cfg, model, n):
    m = cfg['model']
    np = B.np
    if m in ('convection', 'burgers'):
        q = B.var('q0')
        return [B.array([q] * n)]
    if m == 'shallowwater':
        c = B.pos('c0')
        h = c * c / model.g
        u = B.var('u0')
        return [B.array([h] * n), B.array([u] * n)]
    a, c, u = B.pos('a0'), B.pos('c0'), B.var('u0')
    rho = a * a
    p = rho * c * c / model.gamma
    return [B.array([rho] * n), B.array([u] * n), B.array([p] * n)]


def _bcparams(B, model, name, prim1):
    """parameters of boundary condition `name` matching the uniform state, through the real variable functions"""
    bc = {'type': name}
    Q = model.prim2cons(prim1)
    if name in ('insub', 'insub_cbc', 'insup'):
        bc['ptot'] = model.ptot(Q)[0]
        bc['rttot'] = model.rttot(Q)[0]
    if name in ('insup', 'outsub', 'outsub_prim', 'outsub_qtot', 'outsub_rh', 'outsub_nrcbc'):
        bc['p'] = model.pressure(Q)[0]
    if name == 'dirichlet':
        bc['prim'] = [x[0] for x in prim1]
    return bc


def _op1d(cfg, B):
    fd = B.fd
    n = cfg.get('n', 4)
    model = cm.make_model(B, fd, cfg)
    mesh = cm.make_mesh(B, fd, {'mesh': 'faces'}, n)
    num = cm.make_num(B, fd, cfg['num'])
    prim = _uniform_state(B, cfg, model, n)
    prim1 = [x[:1] for x in prim]
    if cfg['bc'] == 'per':
        bcL = bcR = {'type': 'per'}
    else:
        a, b = cfg['bc']
        if cfg['model'] == 'euler1d' and a != 'dirichlet':
            u = prim[1][0]
            c = B.np.sqrt(model.gamma * prim[2][0] / prim[0][0])
            # flow from the inlet to the outlet; regime of the pair
            sgn = 1 if cfg['orient'] == 'lr' else -1
            B.assume(u * sgn > 0)
            if a in ('insub', 'insub_cbc') or b.startswith('outsub'):
                B.assume(u * sgn < c)
            if a == 'insup' and b == 'outsup':
                B.assume(u * sgn > c)
        inl, outl = _bcparams(B, model, a, prim1), _bcparams(B, model, b, prim1)
        bcL, bcR = (inl, outl) if cfg.get('orient', 'lr') == 'lr' else (outl, inl)
    rhs = fd.modeldisc.fvm(model, mesh, num, numflux=cfg.get('flux'), bcL=bcL, bcR=bcR)
    cons = model.prim2cons(prim)
    R = rhs.rhs(fd.field.fdata(model, mesh, cons))
    for k in range(model.neq):
        B.eq_arrays('residual-zero:eq%d' % k, R[k], B.array([B.const(0)] * n), method='sweep', meta={'finite_required': True})


def _nozzle(cfg, B):
    fd = B.fd
    n = 4
    g = B.const(cfg['gamma'])
    xf = cm.mono_faces(B, n)
    mesh = cm.mesh_with_faces(B, fd, xf)
    a0, a1, a2 = B.pos('A0', 1.0, 2.0), B.var('A1', -0.2, 0.2), B.var('A2', -0.1, 0.1)
    law = lambda x: a0 + a1 * x + a2 * x * x
    for x in list(xf) + list(mesh.centers()):
        B.assume(law(x) > 0)
    model = fd.euler.nozzle(law, gamma=g)
    num = cm.make_num(B, fd, cfg['num'])
    a, c = B.pos('a0'), B.pos('c0')
    rho = a * a
    p = rho * c * c / g
    prim = [B.array([rho] * n), B.array([B.const(0)] * n), B.array([p] * n)]
    for bcs in ('sym', 'per'):
        rhs = fd.modeldisc.fvm(model, mesh, num, numflux=cfg['flux'], bcL={'type': bcs}, bcR={'type': bcs})
        R = rhs.rhs(fd.field.fdata(model, mesh, model.prim2cons(prim)))
        for k in range(3):
            B.eq_arrays('nozzle-at-rest:%s:eq%d' % (bcs, k), R[k], B.array([B.const(0)] * n), method='sweep', meta={'finite_required': True})


def _op2d(cfg, B):
    fd = B.fd
    np = B.np
    nx, ny = cfg['nx'], cfg['ny']
    n = nx * ny
    model = fd.euler.euler2d(gamma=B.const(cfg['gamma']))
    mesh = cm.mesh2d(B, fd, nx, ny, B.pos('lx', 0.5, 3.0), B.pos('ly', 0.5, 3.0))
    a, c = B.pos('a0'), B.pos('c0')
    rho = a * a
    p = rho * c * c / model.gamma
    if cfg['bc'] == 'per':
        u, v = B.var('u0'), B.var('v0')
        bclist = {t: {'type': 'per'} for t in ('left', 'right', 'top', 'bottom')}
    else:
        w = B.pos('w0', 0.2, 3.0)
        d = cfg['duct']
        u, v = {'x+': (w, 0), 'x-': (-w, 0), 'y+': (0, w), 'y-': (0, -w)}[d]
        u, v = u + B.const(0), v + B.const(0)
        B.assume(w < c if cfg['kind'] == 'sub' else w > c)
        inlet_side, outlet_side = {'x+': ('left', 'right'), 'x-': ('right', 'left'), 'y+': ('bottom', 'top'), 'y-': ('top', 'bottom')}[d]
        walls = [t for t in ('left', 'right', 'top', 'bottom') if t not in (inlet_side, outlet_side)]
        prim1 = [B.array([rho]), B.array([[u], [v]]), B.array([p])]
        Q1 = model.prim2cons(prim1)
        ptot, rttot, pp = model.ptot(Q1)[0], model.rttot(Q1)[0], model.pressure(Q1)[0]
        if cfg['kind'] == 'sub':
            inl = {'type': 'insub', 'ptot': ptot, 'rttot': rttot}
            outl = {'type': 'outsub', 'p': pp}
        else:
            inl = {'type': 'insup', 'ptot': ptot, 'rttot': rttot, 'p': pp}
            outl = {'type': 'outsup'}
        bclist = {inlet_side: inl, outlet_side: outl, walls[0]: {'type': 'sym'}, walls[1]: {'type': 'sym'}}
    numo = fd.xnum.extrapol2d1() if cfg['num'] == 'extrapol2d1' else fd.xnum.extrapol2dk(B.var('kappa', -1.0, 1.0))
    rhs = fd.modeldisc.fvm2dcart(model, mesh, numo, bclist, numflux=cfg['flux'])
    prim = [B.array([rho] * n), B.array([[u] * n, [v] * n]), B.array([p] * n)]
    R = rhs.rhs(fd.field.fdata(model, mesh, model.prim2cons(prim)))
    z = B.array([B.const(0)] * n)
    B.eq_arrays('residual-zero:mass', R[0], z, method='sweep', meta={'finite_required': True})
    B.eq_arrays('residual-zero:xmom', R[1][0], z, method='sweep', meta={'finite_required': True})
    B.eq_arrays('residual-zero:ymom', R[1][1], z, method='sweep', meta={'finite_required': True})
    B.eq_arrays('residual-zero:energy', R[2], z, method='sweep', meta={'finite_required': True})


def _integrator(cfg, B):
    integ = cfg['integrator']
    neq = 2 if cfg.get('zero_component') else 1
    n = 1 if neq == 2 else 2
    W = [B.vararray('W0', n)]
    if neq == 2:
        W.append(B.array([B.const(0)] * n))     # e.g. the momentum of a gas at rest

    def fn(j, time, data):
        # any right-hand side that vanishes at W:  K = M_j . (data - W), M_j arbitrary (fresh per call)
        out = []
        for q in range(neq):
            comp = []
            for i in range(n):
                s = B.const(0)
                for q2 in range(neq):
                    for m in range(n):
                        s = s + B.var('M%d_%d%d_%d%d' % (j, q, i, q2, m)) * (data[q2][m] - W[q2][m])
                comp.append(s)
            out.append(B.array(comp))
        return out
    solver, disc, model, mesh = stubs.make(B, integ, n=n, neq=neq, fn=fn)
    f = B.fd.field.fdata(model, mesh, [w.copy() for w in W], t=B.var('t0'))
    dt = B.pos('dt') if cfg['dt'] == 'scalar' else B.vararray('dtl', n, positive=True)
    nsteps = 2 if integ == 'gear' else 1
    for s in range(nsteps):
        try:
            solver.step(f, dt)
        except Exception as e:
            B.ob('step%d-runs' % s, 'true', B.boolean(False), meta={'exception': '%s: %s' % (type(e).__name__, str(e)[:150])})
            return
        if B.symbolic:
            from vt import prove, term as tm, ctx as _ctx
            from vt.sym import PB, L
            arrays = [x for d in f.data for x in d]
            for (M, b, x) in _ctx.cur().memo.get('linsolves', []):
                arrays += list(M.flat) + list(b.flat)
            dens = prove.denominators([L(x) for x in arrays])
            B.ob('step%d-finite' % s, 'true', PB(tm.And(*[tm.ne(d, tm.ZERO) for d in dens])), meta={'no_definedness': True})
        else:
            import numpy as rnp
            B.ob('step%d-finite' % s, 'true', all(bool(rnp.all(rnp.isfinite(d))) for d in f.data))
        for q in range(neq):
            B.eq_arrays('state-unchanged:step%d:eq%d' % (s, q), f.data[q], W[q], meta={'finite_required': True})
        if integ == 'gear' and s == 0 and hasattr(solver, '_lastresidual'):
            # composition: the second (BDF2) step starts from what the first one provably produced - the state W and a
            # zero stored increment (both asserted here, then substituted so that the solver need not re-derive them)
            for q in range(neq):
                B.eq_arrays('gear-stored-increment-zero:eq%d' % q, solver._lastresidual[q], 0 * W[q], meta={'finite_required': True})
            solver._lastresidual = [0 * w for w in W]
            f.data = [w.copy() for w in W]
