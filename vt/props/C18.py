"""C18 - the time step is CFL x cell size / fastest wave speed."""
from fractions import Fraction
from . import common as cm

ID = 'C18'
FUNCTIONS = ['flowdyn.modelphy.convection.model.timestep', 'flowdyn.modelphy.burgers.model.timestep',
             'flowdyn.modelphy.shallowwater.shallowwater1d.timestep', 'flowdyn.modelphy.euler.euler.{timestep,velocitymag}',
             'flowdyn.modeldisc.fvm1d.calc_timestep', 'flowdyn.modeldisc.fvm2dcart.calc_timestep',
             "numflux('centered') / the only flux of convection, burgers (differentiated symbolically: the model's own flux Jacobian)",
             'cons2prim of each model', 'flowdyn.integration.timemodel.add_res and every explicit *.step with a per-cell step array']
BOUNDS = ('n=3 cells, arbitrary monotone faces (1D) / 2x2 grid with lx,ly symbolic (2D), all admissible states, CFL symbolic > 0; '
          'gamma in {2, 7/5}; spectral radius: characteristic polynomial of the exact Jacobian of the traced consistent flux, '
          'identity in a symbolic lambda; 2D: normal flux for an arbitrary unit normal (c,s), c^2+s^2=1')
OUTSIDE = ('max over unit normals of |V.n|+c = |V|+c (Cauchy-Schwarz, stated); burgers cells with u=0 (dt=+inf there); the '
           'driver clauses (global min / local array) are decided in C07')
ASSUMPTIONS = ['spectral radius = max |lambda_k| over the roots of the characteristic polynomial, proved as a polynomial identity']
EXPLANATION = 'Oracle independent of timestep(): eigenvalues of d(flux)/d(conservative state) obtained from the traced flux DAG.'


def configs(tier):
    out = [{'model': 'convection'}, {'model': 'burgers', 'explore': True},
           {'model': 'shallowwater'}]
    for g in ['2', '7/5']:
        out.append({'model': 'euler1d', 'gamma': g})
    # last sentence of the property: with a per-cell array of steps every cell advances with its OWN value (the field time with the
    # minimum); decided on the real step of every explicit integrator with an arbitrary right-hand side (harness shared with C05)
    for integ in ('explicit', 'rk2', 'rk2_heun', 'rk3_heun', 'rk3ssp', 'rk4', 'lsrk25bb', 'lsrk26bb', 'lsrk4'):
        out.append({'model': 'local-step', 'integrator': integ})
    for g in ['2', '7/5']:
        out.append({'model': 'euler2d', 'gamma': g})
        for nrm in ([1, 0], [0, 1], [-1, 0], [0, -1]):
            out.append({'model': 'euler2d', 'gamma': g, 'normal': nrm})
    return out


def _det(B, M):
    n = len(M)
    if n == 1:
        return M[0][0]
    s = B.const(0)
    for j in range(n):
        minor = [row[:j] + row[j + 1:] for row in M[1:]]
        t = M[0][j] * _det(B, minor)
        s = s + t if j % 2 == 0 else s - t
    return s


def _jacobian(B, flux_of, q, h=1e-6):
    """A[k][j] = d flux_k / d q_j : exact (symbolic differentiation of the traced DAG) or central differences (replay)"""
    n = len(q)
    if B.symbolic:
        from vt import prove
        from vt.sym import P, L
        f = [L(x) for x in flux_of(q)]
        A = [[None] * n for _ in range(n)]
        for j in range(n):
            name = L(q[j]).v
            col = prove.diff(f, name)
            for k in range(n):
                A[k][j] = P(col[k])
        return A
    A = [[0.0] * n for _ in range(n)]
    for j in range(n):
        qp = list(q); qm = list(q)
        qp[j] = q[j] + h; qm[j] = q[j] - h
        fp, fm = flux_of(qp), flux_of(qm)
        for k in range(n):
            A[k][j] = (fp[k] - fm[k]) / (2 * h)
    return A


def harness(cfg, B):
    fd = B.fd
    np = B.np
    m = cfg['model']
    if m == 'local-step':
        from . import C05
        return C05.harness({'integrator': cfg['integrator'], 'dt': 'local'}, B)
    cfl = B.pos('cfl', 0.1, 2.0)
    lam = B.var('lam')
    if m == 'euler2d':
        return _euler2d(cfg, B, cfl, lam)
    n = 3
    model = cm.make_model(B, fd, cfg)
    mesh = cm.make_mesh(B, fd, {'mesh': 'faces'}, n)
    rhs = fd.modeldisc.fvm(model, mesh, fd.xnum.extrapol1(), numflux='centered' if m in ('shallowwater', 'euler1d') else None)
    prim, cons = cm.make_state(B, m, model, n)
    field = fd.field.fdata(model, mesh, cons)
    dt = rhs.calc_timestep(field, cfl)
    B.ob('one-value-per-cell', 'true', B.boolean(len(dt) == n))
    xf = mesh.xf
    # wave speeds from primitive quantities
    if m == 'convection':
        rho = [abs(model.convcoef)] * n
    elif m == 'burgers':
        rho = [abs(prim[0][i]) for i in range(n)]
        for i in range(n):
            B.assume(abs(prim[0][i]) > 0)
    elif m == 'shallowwater':
        rho = [abs(prim[1][i]) + np.sqrt(model.g * prim[0][i]) for i in range(n)]
    else:
        rho = [abs(prim[1][i]) + np.sqrt(model.gamma * prim[2][i] / prim[0][i]) for i in range(n)]
    for i in range(n):
        B.ob('dt*radius=cfl*size[%d]' % i, 'eq', dt[i] * rho[i], cfl * (xf[i + 1] - xf[i]), method='sweep')
        B.ob('dt>0[%d]' % i, 'lt', B.const(0), dt[i], method='sweep')
    # independence of the other cells: replace them by other admissible data
    prim2, cons2 = cm.make_state(B, m, model, n, tag='z')
    for i in range(n):
        mixed = [np.array([cons[k][j] if j == i else cons2[k][j] for j in range(n)], dtype=object if B.symbolic else float)
                 for k in range(model.neq)]
        if B.symbolic:
            mixed = [B.array(list(x)) for x in mixed]
        if m == 'burgers':
            for j in range(n):
                B.assume(abs(prim2[0][j]) > 0)
        dt2 = rhs.calc_timestep(fd.field.fdata(model, mesh, mixed), cfl)
        B.ob('independent-of-other-cells[%d]' % i, 'eq', dt2[i], dt[i])
    # spectral radius of the model's own consistent flux (one state)
    if m in ('convection', 'burgers'):
        q = [B.var('q0')]
        if m == 'burgers':
            B.assume(abs(q[0]) > 0)

        def flux_of(qq):
            p = model.cons2prim([B.array([x]) for x in qq])
            F = model.numflux(None, p, p)
            return [F[k][0] for k in range(1)]
        eig = [model.convcoef] if m == 'convection' else [q[0]]
        radius = abs(eig[0])
    elif m == 'shallowwater':
        h0, u0, c0 = cm.sw_prim(B, 's', model.g, 1)
        q = [B.var('qh', 0.2, 3.0), B.var('qm')]
        B.assume(q[0] > 0)

        def flux_of(qq):
            p = model.cons2prim([B.array([x]) for x in qq])
            F = model.numflux('centered', p, p)
            return [F[k][0] for k in range(2)]
        u = q[1] / q[0]
        c = np.sqrt(model.g * q[0])
        eig = [u - c, u + c]
        radius = abs(u) + c
    else:
        q = [B.var('qr', 0.2, 3.0), B.var('qm'), B.var('qe', 3.0, 9.0)]
        B.assume(q[0] > 0)
        pr = (model.gamma - 1) * (q[2] - q[1] * q[1] / q[0] / 2)
        B.assume(pr > 0)

        def flux_of(qq):
            p = model.cons2prim([B.array([x]) for x in qq])
            F = model.numflux('centered', p, p)
            return [F[k][0] for k in range(3)]
        u = q[1] / q[0]
        c = np.sqrt(model.gamma * pr / q[0])
        eig = [u - c, u, u + c]
        radius = abs(u) + c
    A = _jacobian(B, flux_of, q)
    if m == 'shallowwater':
        vecs = [([B.const(1), u - c], u - c), ([B.const(1), u + c], u + c)]
    elif m == 'euler1d':
        H = (q[2] + pr) / q[0]
        vecs = [([B.const(1), u - c, H - u * c], u - c), ([B.const(1), u, u * u / 2], u), ([B.const(1), u + c, H + u * c], u + c)]
    else:
        vecs = [([B.const(1)], eig[0])]
    _eig_obs(B, A, vecs, cfg)
    mx = abs(eig[0])
    for e in eig[1:]:
        mx = np.maximum(mx, abs(e))
    B.ob('max|lambda_k|=radius', 'eq', mx, radius, method='sweep')


def _eig_obs(B, A, vecs, cfg):
    """A r_k = lambda_k r_k for each listed pair, and the r_k are linearly independent: the lambda_k are then
    exactly the eigenvalues of the flux Jacobian (with multiplicity)"""
    n = len(A)
    for k, (r, lam) in enumerate(vecs):
        for i in range(n):
            s = B.const(0)
            for j in range(n):
                s = s + A[i][j] * r[j]
            B.ob('A.r%d=lambda%d.r%d[%d]' % (k, k, k, i), 'eq', s, lam * r[i], tol=1e-5, method='sweep',
                 timeout_ms=cfg.get('timeout_ms', 60000))
    Rm = [[vecs[k][0][i] for k in range(n)] for i in range(n)]
    det = _det(B, Rm)
    B.ob('eigenvectors-independent(det!=0)', 'lt', B.const(0), det * det, method='sweep')


def _euler2d(cfg, B, cfl, lam):
    fd = B.fd
    np = B.np
    d = cm.build2d(B, {'nx': 2, 'ny': 2, 'gamma': cfg['gamma'], 'flux': 'centered'})
    model, mesh, rhs, n = d['model'], d['mesh'], d['rhs'], d['n']
    rho_, V, p = d['prim']
    dt = rhs.calc_timestep(d['field'], cfl)
    B.ob('one-value-per-cell', 'true', B.boolean(len(dt) == n))
    dx, dy = mesh.lx / 2, mesh.ly / 2
    size = dx * dy / (dx + dy)
    for i in range(n):
        r = np.sqrt(V[0][i] * V[0][i] + V[1][i] * V[1][i]) + np.sqrt(model.gamma * p[i] / rho_[i])
        B.ob('dt*radius=cfl*size[%d]' % i, 'eq', dt[i] * r, cfl * size, method='sweep')
        B.ob('dt>0[%d]' % i, 'lt', B.const(0), dt[i], method='sweep')
    # normal flux Jacobian for an arbitrary unit normal
    if cfg.get('normal', 'param') == 'param':
        # every unit normal except (-1,0): rational parametrisation of the circle
        tt = B.var('nt', -3.0, 3.0)
        cs, sn = (1 - tt * tt) / (1 + tt * tt), 2 * tt / (1 + tt * tt)
    else:
        cs, sn = B.const(cfg['normal'][0]), B.const(cfg['normal'][1])
    q = [B.var('qr', 0.2, 3.0), B.var('qmx'), B.var('qmy'), B.var('qe', 3.0, 9.0)]
    B.assume(q[0] > 0)
    pr = (model.gamma - 1) * (q[3] - (q[1] * q[1] + q[2] * q[2]) / q[0] / 2)
    B.assume(pr > 0)

    def flux_of(qq):
        Q = [B.array([qq[0]]), B.array([[qq[1]], [qq[2]]]), B.array([qq[3]])]
        pp = model.cons2prim(Q)
        dirn = B.array([[cs], [sn]])
        F = model.numflux('centered', pp, pp, dirn)
        return [F[0][0], F[1][0][0], F[1][1][0], F[2][0]]
    A = _jacobian(B, flux_of, q)
    u, v = q[1] / q[0], q[2] / q[0]
    un = u * cs + v * sn
    c = np.sqrt(model.gamma * pr / q[0])
    H = (q[3] + pr) / q[0]
    vecs = [([B.const(1), u - c * cs, v - c * sn, H - c * un], un - c),
            ([B.const(1), u, v, (u * u + v * v) / 2], un),
            ([B.const(0), -sn, cs, -u * sn + v * cs], un),
            ([B.const(1), u + c * cs, v + c * sn, H + c * un], un + c)]
    _eig_obs(B, A, vecs, cfg)
