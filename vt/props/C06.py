"""C06 - implicit integrators solve the linearised theta / BDF2 system exactly."""
from fractions import Fraction
import math
from . import common as cm
from . import stubs

ID = 'C06'
EXPLORE = True     # calc_jacobian branches on the field scale (zero mean -> unit scale)
FUNCTIONS = ['flowdyn.integration.implicitmodel.{calc_jacobian,solve_implicit}', 'flowdyn.integration.implicit.step',
             'flowdyn.integration.trapezoidal.step', 'flowdyn.integration.gear.step', 'flowdyn.integration.timemodel.{add_res,calcrhs}',
             'flowdyn.modeldisc.fvm1d.rhs (convection, burgers, euler1d as the right-hand side)', 'flowdyn.xnum.{extrapol1,extrapol2,extrapolk,extrapol3}']
BOUNDS = ('linear clause: the RHS is the real fvm1d operator of the convection model on n=3 periodic cells with arbitrary monotone faces, '
          'speed a and all reconstructions extrapol1/2/k(kappa symbolic)/3; field, dt (any CFL) and t0 symbolic; one step of implicit and '
          'cranknicolson, two steps of gear. Amplification factors: scalar problem y\'=z*y with symbolic real z. Jacobian: real operators of '
          'burgers (n=3, positive data, first order) and euler1d (n=2, centered and hlle) - every entry of the matrix held by the integrator is '
          'the finite-difference quotient of the real operator for the perturbation of exactly that unknown, with eps = 1e-6*sqrt(2^-52)*mean|q|; '
          'for burgers additionally |J_fd - dR/dq| <= eps/dx')
OUTSIDE = ('finite-difference truncation error for Euler (the quotient is exact in form, its distance to the derivative is O(eps)); temporal '
           'order follows from the amplification factors / BDF2 recurrence (classical); complex z; round-off in eps')
ASSUMPTIONS = ['numpy.linalg.solve exact, matrix regular']
EXPLANATION = ('The matrix A of the real linear operator is read from R(e_j); the obligations are the defining linear systems of backward Euler, '
               'Crank-Nicolson and BDF2 written with A.')


def configs(tier):
    out = []
    for integ in ('implicit', 'backwardeuler', 'trapezoidal', 'cranknicolson', 'gear'):
        for num in (['extrapol1', 'extrapol3'] if tier == 'quick' else ['extrapol1', 'extrapol2', 'extrapolk', 'extrapol3']):
            out.append({'part': 'linear', 'integrator': integ, 'num': num, 'n': 3, 'timeout_ms': 60000 if tier == 'quick' else 600000})
        out.append({'part': 'amplification', 'integrator': integ})
    out.append({'part': 'jacobian', 'model': 'burgers', 'n': 3})
    for fl in ('centered', 'hlle'):
        out.append({'part': 'jacobian', 'model': 'euler1d', 'flux': fl, 'n': 2, 'gamma': '7/5'})
    return out


def harness(cfg, B):
    return {'linear': _linear, 'amplification': _ampl, 'jacobian': _jac}[cfg['part']](cfg, B)


def _linear(cfg, B):
    fd = B.fd
    n = cfg['n']
    a = B.var('aconv')
    B.assume(abs(a) > 0)
    model = fd.convection.model(a)
    mesh = cm.make_mesh(B, fd, {'mesh': 'faces'}, n)
    num = cm.make_num(B, fd, cfg['num'])
    rhs = fd.modeldisc.fvm(model, mesh, num)

    def R(vec):
        return [x for x in rhs.rhs(fd.field.fdata(model, mesh, [B.array(list(vec))]))[0]]
    zero, one = B.const(0), B.const(1)
    A = [[None] * n for _ in range(n)]
    for j in range(n):
        col = R([one if k == j else zero for k in range(n)])
        for i in range(n):
            A[i][j] = col[i]
    # linearity of the real operator
    x, y = B.vararray('x', n), B.vararray('y', n)
    al, be = B.var('al'), B.var('be')
    Rx, Ry, Rxy = R(x), R(y), R([al * x[i] + be * y[i] for i in range(n)])
    for i in range(n):
        B.ob('operator-linear[%d]' % i, 'eq', Rxy[i], al * Rx[i] + be * Ry[i])
        B.ob('operator=A.q[%d]' % i, 'eq', Rx[i], sum((A[i][j] * x[j] for j in range(n)), zero))
    # the integrator on ANY linear right-hand side K = Ac.data (Ac: fresh symbolic matrix); with 'operator=A.q' above this
    # covers the real operator
    Ac = [[B.var('A%d%d' % (i, j)) for j in range(n)] for i in range(n)]

    def fn(j, time, data):
        return [B.array([sum((Ac[i][k] * data[0][k] for k in range(n)), zero) for i in range(n)])]
    integ = cfg['integrator']
    solver, disc, smodel, smesh = stubs.make(B, integ, n=n, fn=fn, islinear=1)
    q0 = B.vararray('q', n)
    B.assume(sum((abs(v) for v in q0), zero) > 0)
    t0 = B.var('t0')
    dt = B.pos('dt', 0.05, 5.0)
    f = fd.field.fdata(smodel, smesh, [q0.copy()], t=t0)

    def Av(v, i):
        return sum((Ac[i][j] * v[j] for j in range(n)), zero)
    solver.step(f, dt)
    Jm = solver.jacobian
    for i in range(n):
        for j in range(n):
            B.ob('jacobian=A[%d][%d]' % (i, j), 'eq', Jm[i][j], Ac[i][j])
    q1 = [x for x in f.data[0]]
    B.ob('time=t0+dt', 'eq', f.time, t0 + dt)
    if integ in ('implicit', 'backwardeuler'):
        for i in range(n):
            B.ob('(I-dt.A).Q1=Q0[%d]' % i, 'eq', q1[i] - dt * Av(q1, i), q0[i])
    else:
        for i in range(n):
            B.ob('(I-dt.A/2).Q1=(I+dt.A/2).Q0[%d]' % i, 'eq', q1[i] - dt / 2 * Av(q1, i), q0[i] + dt / 2 * Av(q0, i))
    if integ != 'gear':
        # the same integrator object is used again with ANOTHER step size (what solve() does for the shortened step to a save
        # time, and what a second solve() at another CFL does): nothing assembled for the first step may be reused
        dt2 = B.pos('dt2', 0.05, 5.0)
        q1 = B.vararray('r', n)          # from ANY state (generalises the state reached by the first step)
        B.assume(sum((abs(v) for v in q1), zero) > 0)
        f.data[0] = q1.copy()
        solver.step(f, dt2)
        q2 = [x for x in f.data[0]]
        B.ob('second-step:time=t0+dt+dt2', 'eq', f.time, t0 + dt + dt2)
        if integ in ('implicit', 'backwardeuler'):
            for i in range(n):
                B.ob('second-step-other-dt:(I-dt2.A).Q2=Q1[%d]' % i, 'eq', q2[i] - dt2 * Av(q2, i), q1[i])
        else:
            for i in range(n):
                B.ob('second-step-other-dt:(I-dt2.A/2).Q2=(I+dt2.A/2).Q1[%d]' % i, 'eq', q2[i] - dt2 / 2 * Av(q2, i), q1[i] + dt2 / 2 * Av(q1, i))
    if integ == 'gear':
        solver.step(f, dt)
        q2 = [x for x in f.data[0]]
        B.ob('time=t0+2dt', 'eq', f.time, t0 + 2 * dt)
        for i in range(n):
            B.ob('BDF2:(3Q2-4Q1+Q0)/(2dt)=A.Q2[%d]' % i, 'eq', (3 * q2[i] - 4 * q1[i] + q0[i]) / (2 * dt), Av(q2, i))


def _ampl(cfg, B):
    """scalar test equation y' = z y through the real step (stub RHS K = z*data)"""
    z = B.var('z', -5.0, 1.0)
    integ = cfg['integrator']

    def fn(j, time, data):
        return [z * data[0]]
    solver, disc, model, mesh = stubs.make(B, integ, n=1, fn=fn)
    y0 = B.vararray('y', 1)
    B.assume(abs(y0[0]) > 0)
    f = B.fd.field.fdata(model, mesh, [y0.copy()], t=B.const(0))
    solver.step(f, B.const(1))
    y1 = f.data[0][0]
    if integ in ('implicit', 'backwardeuler'):
        B.ob('g(z)(1-z)=1', 'eq', y1 * (1 - z), y0[0])
        B.ob('no-growth-for-z<=0', 'le', abs(y1), abs(y0[0]), assume=[z <= 0])
    else:
        B.ob('g(z)(1-z/2)=1+z/2', 'eq', y1 * (1 - z / 2), y0[0] * (1 + z / 2))
        B.ob('no-growth-for-z<=0', 'le', abs(y1), abs(y0[0]), assume=[z <= 0])
    if integ == 'gear':
        solver.step(f, B.const(1))
        y2 = f.data[0][0]
        B.ob('BDF2-recurrence:(3y2-4y1+y0)/2=z.y2', 'eq', (3 * y2 - 4 * y1 + y0[0]) / 2, z * y2)
        solver.step(f, B.const(1))
        y3 = f.data[0][0]
        B.ob('BDF2-recurrence-third-step:(3y3-4y2+y1)/2=z.y3', 'eq', (3 * y3 - 4 * y2 + y1) / 2, z * y3)


def _jac(cfg, B):
    fd = B.fd
    np = B.np
    n = cfg['n']
    mname = cfg['model']
    model = cm.make_model(B, fd, cfg)
    mesh = cm.make_mesh(B, fd, {'mesh': 'faces'}, n)
    rhs = fd.modeldisc.fvm(model, mesh, fd.xnum.extrapol1(), numflux=cfg.get('flux'))
    if mname == 'burgers':
        u = B.vararray('u', n, positive=True)
        cons = [u]
    else:
        prim, cons = cm.make_state(B, mname, model, n)
    neq = model.neq
    c0 = 1e-6 * math.sqrt(2.0 ** -52)
    eps = []
    for q in range(neq):
        mean = sum((abs(x) for x in cons[q]), B.const(0)) / n
        e = B.const(Fraction(c0)) * mean if B.symbolic else c0 * mean
        eps.append(e)
        B.assume(mean > 0)
    f = fd.field.fdata(model, mesh, [c.copy() for c in cons])
    solver = fd.integration.implicit(mesh, rhs)
    J = solver.calc_jacobian(f)
    dim = neq * n
    B.ob('jacobian-shape', 'true', B.boolean(tuple(np.shape(J)) == (dim, dim)))
    R0 = [r.copy() for r in rhs.rhs(fd.field.fdata(model, mesh, [c.copy() for c in cons]))]
    for i in range(n):
        for q in range(neq):
            pert = [c.copy() for c in cons]
            pert[q][i] = pert[q][i] + eps[q]
            if mname == 'burgers':
                pass
            R1 = rhs.rhs(fd.field.fdata(model, mesh, pert))
            for qq in range(neq):
                for ii in range(n):
                    ref = (R1[qq][ii] - R0[qq][ii]) / eps[q]
                    B.ob('J[%d*neq+%d][%d*neq+%d]=FD-quotient' % (ii, qq, i, q), 'eq', J[ii * neq + qq][i * neq + q], ref, tol=1e-6,
                         method='sweep')
    if mname == 'burgers' and B.symbolic:
        # accuracy against the exact derivative of the traced operator
        from vt import prove
        from vt.sym import P, L
        Rt = [L(x) for x in R0[0]]
        dx = mesh.vol()
        for j in range(n):
            col = prove.diff(Rt, L(u[j]).v)
            for i in range(n):
                B.ob('|J_fd-dR/dq|<=eps/dx[%d][%d]' % (i, j), 'le', abs(J[i][j] - P(col[i])) * dx[i], eps[0], replayable=False)
