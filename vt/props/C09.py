"""C09 - limited schemes obey the maximum principle and are TVD for scalar laws."""
from fractions import Fraction
from . import common as cm

ID = 'C09'
FUNCTIONS = ['flowdyn.modeldisc.fvm1d.* (periodic)', 'flowdyn.modelphy.convection.model.{numflux,timestep}',
             'flowdyn.modelphy.burgers.model.{numflux,timestep}', 'flowdyn.xnum.extrapol1.interp_face', 'flowdyn.xnum.muscl.interp_face',
             'flowdyn.xnum.{minmod,vanalbada,vanleer,superbee}', 'flowdyn.integration.explicit.step', 'flowdyn.integration.rkmodel.step (rk2_heun, rk3ssp)',
             'flowdyn.integration.timemodel.add_res']
BOUNDS = ('one time step on a periodic mesh, all cell data symbolic (any real values: steps, sawteeth, sign changes are points of the '
          'domain): first order upwind, n=4 cells with arbitrary monotone faces, speed a != 0 of either sign, 0 < CFL <= 1, with explicit '
          'Euler and directly with rk2_heun / rk3ssp; MUSCL x {minmod, superbee, vanleer, vanalbada} inline and an abstract limiter '
          'constrained only by the Sweby contract of C12, n=5 uniform cells (burgers n=4, path-explored incl. the exact ties), 0 < CFL <= 1/2, '
          'explicit Euler; dt is any positive step with dt*|speed_i| <= CFL*dx_i for every cell (what the real global min of the real '
          'per-cell time steps guarantees, C18)')
OUTSIDE = ('MUSCL with rk2_heun/rk3ssp: by convexity of the SSP stages (C05 proves the Shu-Osher form with non-negative weights); for Burgers '
           'the later stages reuse the dt of the step start and their CFL premise follows from the maximum principle of the previous stage; '
           'any number of steps by induction; non-uniform meshes for MUSCL (excluded by the property); float round-off')
ASSUMPTIONS = ['inline vanleer/vanalbada: proved through a lemma chain - every value returned by the real limiter during the step is proved to lie in the '
               'Sweby region (on the real terms), then the range obligations are proved with those values cut to variables constrained by that '
               'region only; the uncut obligations are additionally searched for violations',
               'total variation is asserted directly for first order and minmod/superbee; for every limiter the local 3-point range '
               'min(u_{i-1},u_i,u_{i+1}) <= u_i\' <= max(...) is asserted, which with conservation gives TVD by Harten\'s lemma (stated, not re-proved)']
EXPLANATION = 'Assertions over the data after the real step: global range, local range and total variation.'


def configs(tier):
    out = []
    q = tier == 'quick'
    for sp in ('pos', 'neg'):
        for integ in (('explicit', 'rk2_heun') if q else ('explicit', 'rk2_heun', 'rk3ssp')):
            c = {'scheme': 'o1', 'model': 'convection', 'speed': sp, 'n': 4, 'integrator': integ, 'mesh': 'faces'}
            if integ == 'rk3ssp':
                c.update(timeout_ms=600000, budget_s=1800)
            out.append(c)
        for lim in cm.LIMITERS + ['abstract']:
            c = {'scheme': 'muscl', 'limiter': lim, 'model': 'convection', 'speed': sp, 'n': 5, 'integrator': 'explicit', 'mesh': 'uniform'}
            if lim in ('vanleer', 'vanalbada'):
                # inline smooth limiters: bounded bug hunting in the quick tier (the abstract-limiter configuration carries the proof)
                c['timeout_ms'] = 8000 if q else 600000
                c['budget_s'] = 280 if q else 1500
            out.append(c)
    # burgers: the python branches of numflux (3 outcomes per face, the exact tie included) are explored; the 81 paths are
    # distributed over 9 configurations by the decisions taken at the first two faces
    three = [[True], [False, True], [False, False]]
    prefixes = [a + b for a in three for b in three]
    for pre in prefixes:
        out.append({'scheme': 'o1', 'model': 'burgers', 'n': 4, 'integrator': 'explicit', 'mesh': 'uniform', 'explore': True,
                    'no_feasibility': True, 'path_prefix': pre, 'timeout_ms': 10000 if q else 120000})
        for lim in (['minmod', 'abstract'] if q else cm.LIMITERS + ['abstract']):
            out.append({'scheme': 'muscl', 'limiter': lim, 'model': 'burgers', 'n': 4, 'integrator': 'explicit', 'mesh': 'uniform', 'explore': True,
                        'no_feasibility': True, 'path_prefix': pre, 'budget_s': 280 if q else 1200, 'timeout_ms': 10000 if q else 120000})
    return out


def _abstract_limiter(B):
    """uninterpreted limiter phi constrained, at every call, by the C12 contract only"""
    from vt import term as tm
    from vt.sym import P, L
    import numpy as rnp

    def one(x, y):
        x, y = L(x), L(y)
        r = tm.uf('phi', x, y)
        X, Y, R = P(x), P(y), P(r)
        B.assume((~((X > 0) & (Y > 0))) | ((R >= 0) & (R <= 2 * X) & (R <= 2 * Y)))
        B.assume((~((X < 0) & (Y < 0))) | ((R <= 0) & (R >= 2 * X) & (R >= 2 * Y)))
        B.assume((((X > 0) & (Y > 0)) | ((X < 0) & (Y < 0))) | (R == 0))
        return R

    def phi(x, y):
        return B.array(list(rnp.frompyfunc(one, 2, 1)(x.view(rnp.ndarray), y.view(rnp.ndarray))))
    B.note('abstract limiter: uninterpreted phi with the Sweby contract (0 when signs differ, common sign, |phi| <= 2 min(|a|,|b|)) instantiated at every call')
    return phi


def harness(cfg, B):
    fd = B.fd
    np = B.np
    n = cfg['n']
    mname = cfg['model']
    model = cm.make_model(B, fd, cfg)
    mesh = cm.make_mesh(B, fd, cfg, n)
    if cfg['scheme'] == 'o1':
        num = fd.xnum.extrapol1()
        cflmax = Fraction(1)
    else:
        lim = _abstract_limiter(B) if cfg['limiter'] == 'abstract' else getattr(fd.xnum, cfg['limiter'])
        limcalls = []
        if cfg['limiter'] in ('vanleer', 'vanalbada'):
            # the real smooth limiter, observed: (arguments, result) of every call are recorded for the lemma chain below
            real_lim = lim

            def lim(a, b):
                r = real_lim(a, b)
                limcalls.append((a, b, r))
                return r
        num = fd.xnum.muscl(lim)
        cflmax = Fraction(1, 2)
    replayable = cfg.get('limiter') != 'abstract'
    rhs = fd.modeldisc.fvm(model, mesh, num)
    u = B.vararray('u', n)
    f = fd.field.fdata(model, mesh, [u])
    cfl = B.pos('cfl', 0.05, float(cflmax))
    B.assume(cfl <= B.const(cflmax))
    dt = B.pos('dt', 0.01, 0.5)
    dx = mesh.vol()
    for i in range(n):
        speed = abs(model.convcoef) if mname == 'convection' else abs(u[i])
        B.assume(dt * speed <= cfl * dx[i])
    solver = getattr(fd.integration, cfg['integrator'])(mesh, rhs)
    solver.step(f, dt)
    v = f.data[0]
    lo, hi = u[0], u[0]
    for j in range(1, n):
        lo, hi = np.minimum(lo, u[j]), np.maximum(hi, u[j])
    kw = dict(replayable=replayable)
    if cfg['scheme'] == 'muscl' and limcalls and B.symbolic:
        # lemma chain for the inline smooth limiters (their rational form defeats the direct query):
        #   L1  every value returned by the real limiter in this step satisfies the Sweby contract of C12 (proved on the real terms)
        #   L2  with the returned values CUT to variables that only satisfy that contract, the range obligations hold
        # the uncut obligations below are then searched for violations only
        from vt.sym import L as _L
        outs, facts = [], []
        for (a, b, r) in limcalls:
            for j in range(len(r)):
                X, Y, R = a[j], b[j], r[j]
                if _L(R).op in ('const', 'var'):
                    continue
                outs.append(R)
                fj = [(~((X > 0) & (Y > 0))) | ((R >= 0) & (R <= 2 * X) & (R <= 2 * Y)),
                      (~((X < 0) & (Y < 0))) | ((R <= 0) & (R >= 2 * X) & (R >= 2 * Y)),
                      (((X > 0) & (Y > 0)) | ((X < 0) & (Y < 0))) | (R == 0)]
                facts += fj
        for k, fct in enumerate(facts):
            B.ob('chain:limiter-value-in-Sweby-region[%d]' % k, 'true', fct, meta={'lemma': True})
        lo_c = cm.cut(B, [lo, hi] + [v[i] for i in range(n)], [B.array(outs)])
        facts_c = cm.cut(B, facts, [B.array(outs)])
        for i in range(n):
            B.ob('chain:global-range-with-cut-limiter:min<=u\'[%d]' % i, 'le', lo_c[0], lo_c[2 + i], assume=facts_c, replayable=False, meta={'lemma': True})
            B.ob('chain:global-range-with-cut-limiter:u\'[%d]<=max' % i, 'le', lo_c[2 + i], lo_c[1], assume=facts_c, replayable=False, meta={'lemma': True})
            l3 = np.minimum(np.minimum(u[(i - 1) % n], u[i]), u[(i + 1) % n])
            h3 = np.maximum(np.maximum(u[(i - 1) % n], u[i]), u[(i + 1) % n])
            B.ob('chain:local-range-with-cut-limiter:min3<=u\'[%d]' % i, 'le', l3, lo_c[2 + i], assume=facts_c, replayable=False, meta={'lemma': True})
            B.ob('chain:local-range-with-cut-limiter:u\'[%d]<=max3' % i, 'le', lo_c[2 + i], h3, assume=facts_c, replayable=False, meta={'lemma': True})
        kw = dict(replayable=replayable, meta={'search_only': 'chain (limiter values in the Sweby region; range with the limiter values cut)'})
    for i in range(n):
        B.ob('global-range:min<=u\'[%d]' % i, 'le', lo, v[i], **kw)
        B.ob('global-range:u\'[%d]<=max' % i, 'le', v[i], hi, **kw)
        if cfg['integrator'] == 'explicit':
            # one forward-Euler step only involves the two neighbours (a multi-stage step has a wider stencil)
            l3 = np.minimum(np.minimum(u[(i - 1) % n], u[i]), u[(i + 1) % n])
            h3 = np.maximum(np.maximum(u[(i - 1) % n], u[i]), u[(i + 1) % n])
            B.ob('local-range:min3<=u\'[%d]' % i, 'le', l3, v[i], **kw)
            B.ob('local-range:u\'[%d]<=max3' % i, 'le', v[i], h3, **kw)
    if cfg['scheme'] == 'o1' and cfg['integrator'] == 'explicit':
        tv0 = sum((abs(u[(i + 1) % n] - u[i]) for i in range(n)), B.const(0))
        tv1 = sum((abs(v[(i + 1) % n] - v[i]) for i in range(n)), B.const(0))
        B.ob('total-variation-does-not-increase', 'le', tv1, tv0, timeout_ms=cfg.get('timeout_ms', 20000) * 2, **kw)
