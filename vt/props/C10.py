"""C10 - first-order Riemann-flux schemes keep density, pressure and depth positive."""
from fractions import Fraction
from . import common as cm

ID = 'C10'
FUNCTIONS = ['flowdyn.modeldisc.fvm1d.* (extrapol1; periodic and sym)', 'flowdyn.modeldisc.fvm1d.calc_flux (flux arrays compared with the HLL form)', 'flowdyn.modelphy.shallowwater.shallowwater1d.{numflux_rusanov,numflux_hll,timestep,cons2prim,bc_sym}',
             'flowdyn.modelphy.euler.euler.{numflux_hlle,numflux_hllc,_Roe_average,timestep,pressure,cons2prim}', 'flowdyn.modelphy.euler.euler1d.bc_sym',
             'flowdyn.integration.explicit.step', 'flowdyn.integration.timemodel.add_res']
BOUNDS = ('one explicit-Euler step of the real first-order scheme on 3 uniform cells (periodic: every cell sees two arbitrary neighbours; sym: wall-adjacent '
          'cells), ALL admissible states symbolic (no bound on the jumps or Mach/Froude numbers), dx > 0, 0 < CFL <= 1/2, any dt with '
          'dt*(|u_j|+c_j) <= CFL*dx for every cell (what the real global min of the real time steps guarantees, C18); assertion: h\' > 0 / rho\' > 0 / p\' > 0 '
          'in every cell. Square roots are abstracted to s >= 0 first (CEGAR level 0) and taken exactly otherwise. gamma = 7/5 and 2')
OUTSIDE = ('rk2_heun / rk3ssp: convex combinations of Euler steps (C05) under the ASSUMPTION that dt still satisfies CFL <= 1 at the stage states (the '
           'property\'s factor-two margin; there is no maximum principle bounding the stage wave speeds) - stated, not proved; several steps by induction; '
           'round-off; clauses reported INCONCLUSIVE are only searched for violations (solver + simulation-guided models), not proved')
ASSUMPTIONS = ['stencil locality: a cell update only involves its two neighbours',
               'chain P: the instantiation of the convexity lemmas M1-M6 (proved for all values) at the real terms is an argument; their premises are '
               'exactly the facts proved on the real terms']
EXPLANATION = ('Positivity after the real step is asserted for all data. What the solver cannot prove within the time limit is reported inconclusive and '
               'remains a bounded search for violations.')
LEVEL_TEXT = ('Bounded SMT verification through solver-checked lemma chains: shallow-water depth (Rusanov directly, HLL through chain A-B-C); HLLE '
              'density AND pressure through the state chain P (flux = HLL form, wave-speed facts, update = convex combination of admissible states, '
              'convexity lemmas M1-M6), both UNDER THE STATED ASSUMPTION that dt also respects the Roe-average wave speeds (not implied by the cell '
              'CFL condition, DESIGN.md A.8). HLLC (density and pressure) is a bounded solver-based search for violations only.')


def configs(tier):
    out = []
    q = tier == 'quick'
    to = 15000 if q else 420000
    bud = 200 if q else 1800
    for bc in ('per', 'sym'):
        for fl in ('rusanov', 'hll'):
            out.append({'model': 'shallowwater', 'flux': fl, 'bc': bc, 'timeout_ms': max(to, 60000) if fl == 'rusanov' else to, 'budget_s': max(bud, 290), 'lemma': False, 'guided_tries': 3000, 'guided_min_size': 5})
        for fl in ('hlle', 'hllc'):
            for g in (['7/5'] if q else ['7/5', '2']):
                out.append({'model': 'euler1d', 'flux': fl, 'bc': bc, 'gamma': g, 'timeout_ms': to, 'budget_s': max(bud, 500 if fl == 'hlle' else 295),
                            'lemma': False, 'guided_tries': 3000, 'guided_min_size': 5, **({'sweep_budget_s': 200} if fl == 'hlle' and q else {})})
    return out


def harness(cfg, B):
    fd = B.fd
    np = B.np
    n = 3
    mname = cfg['model']
    model = cm.make_model(B, fd, cfg)
    mesh = fd.mesh.unimesh(ncell=n, length=B.pos('len', 1.0, 3.0))
    bc = {'type': cfg['bc']}
    rhs = fd.modeldisc.fvm(model, mesh, fd.xnum.extrapol1(), numflux=cfg['flux'], bcL=bc, bcR=bc)
    prim, cons = cm.make_state(B, mname, model, n)
    # the search for violations samples strong jumps and high Mach / Froude numbers as well
    for nm in list(B.dom):
        if nm.startswith('wu'):
            B.dom[nm] = (-4.0, 4.0)
        elif nm.startswith('wc'):
            B.dom[nm] = (0.05, 2.0)
        elif nm.startswith('wa'):
            B.dom[nm] = (0.05, 3.0)
    f = fd.field.fdata(model, mesh, [c.copy() for c in cons])
    cfl = B.pos('cfl', 0.05, 0.5)
    B.assume(cfl <= B.const(Fraction(1, 2)))
    dt = B.pos('dt', 0.01, 0.3)
    dx = mesh.vol()
    for j in range(n):
        if mname == 'shallowwater':
            speed = abs(prim[1][j]) + np.sqrt(model.g * prim[0][j])
        else:
            speed = abs(prim[1][j]) + np.sqrt(model.gamma * prim[2][j] / prim[0][j])
        B.assume(dt * speed <= cfl * dx[j])
    solver = fd.integration.explicit(mesh, rhs)
    solver.step(f, dt)
    kw = dict(meta={'sqrt_level': 0})
    chain = cfg['flux'] in ('hll', 'hlle') and cfg.get('chain', True)
    if chain:
        _hll_chain(cfg, B, model, mname, prim, rhs, f, dt, dx, n)
    kwm = dict(meta={'search_only': 'chain-A, chain-B, chain-C'}) if chain else kw
    pchain = cfg['flux'] == 'hlle' and cfg.get('pchain', True)
    if pchain:
        _hlle_state_chain(cfg, B, model, prim, rhs, f, dt, dx, n)
    if cfg['flux'] in ('hll', 'hlle') and cfg.get('lemma', True) and cfg['bc'] == 'per':
        # lemma chain: the wave-speed estimates of every face are located in the traced DAG (hints), cut to variables and only
        # their defining min/max inequalities and the bound by the one-sided speeds are kept (each proved on the real terms first)
        hints, facts = [], []
        if mname == 'shallowwater':
            # the celerities are cut as well (c_j > 0 is all that is kept of c_j^2 = g h_j): the cut problem is sqrt-free
            for j in range(n):
                cj = np.sqrt(model.g * prim[0][j])
                hints.append(cj)
                facts.append(cj > 0)
        for fc in range(n):
            L_, R_ = (fc - 1) % n, fc % n
            if mname == 'shallowwater':
                uL, uR = prim[1][L_], prim[1][R_]
                cL, cR = np.sqrt(model.g * prim[0][L_]), np.sqrt(model.g * prim[0][R_])
                sL = np.minimum(0., np.minimum(uL - cL, uR - cR))
                sR = np.maximum(0., np.maximum(uL + cL, uR + cR))
                lo = [uL - cL, uR - cR]
                hi = [uL + cL, uR + cR]
            else:
                g = model.gamma
                rL, rR, uL, uR, pL, pR = prim[0][L_], prim[0][R_], prim[1][L_], prim[1][R_], prim[2][L_], prim[2][R_]
                cL, cR = np.sqrt(g * pL / rL), np.sqrt(g * pR / rR)
                HL = g / (g - 1) * pL / rL + uL * uL / 2
                HR = g / (g - 1) * pR / rR + uR * uR / 2
                w = np.sqrt(rR / rL)
                uRoe = (uL + uR * w) / (1 + w)
                cRoe = np.sqrt((g - 1) * ((HL + HR * w) / (1 + w) - uRoe * uRoe / 2))
                sL = np.minimum(0., np.minimum(uRoe - cRoe, uL - cL))
                sR = np.maximum(0., np.maximum(uRoe + cRoe, uR + cR))
                lo = [uL - cL]
                hi = [uR + cR]
            hints += [sL, sR]
            facts += [sL <= 0, sR >= 0, sL < sR] + [sL <= x for x in lo] + [sR >= x for x in hi]
            bound = np.maximum(abs(uL) + cL, abs(uR) + cR)
            facts += [-sL <= bound, sR <= bound]
        kw = dict(method='split', hints=hints, cuts=list(range(len(hints))), facts=facts, meta={'split_budget_s': 200, 'expand_minmax': True})
    for i in range(n):
        if mname == 'shallowwater':
            B.ob('depth>0[%d]' % i, 'lt', B.const(0), f.data[0][i], **(kwm if not kw.get('method') else kw))
        else:
            B.ob('density>0[%d]' % i, 'lt', B.const(0), f.data[0][i], **(kwm if not kw.get('method') else kw))
            pnew = model.pressure(f.data)
            B.ob('pressure>0[%d]' % i, 'lt', B.const(0), pnew[i],
                 meta={'search_only': 'chain-P (flux form, wave-speed facts, update identity, lemmas M1-M6)'} if pchain else {'sqrt_level': 0})


def _hll_chain(cfg, B, model, mname, prim, rhs, f, dt, dx, n):
    """lemma chain for the mass (depth / density) update of the HLL-type fluxes, every link a solver query on the real terms:
       A  the code's mass flux at face f is  m_L*alpha_f - m_R*beta_f  with alpha = sR(uL-sL)/(sR-sL), beta = (-sL)(sR-uR)/(sR-sL)
       B  0 <= alpha, 0 <= beta, dt*alpha < dx/2, dt*beta <= dx/2
       C  with alpha, beta CUT to variables that only satisfy B:  m_i' = m_i(1 - lam(alpha+ + beta-)) + lam m_{i+1} beta+ + lam m_{i-1} alpha- > 0
    For hlle the wave speeds also contain the Roe-average speeds; that dt respects them too (dt*sR <= dx/2, dt*(-sL) <= dx/2) is then an
    explicit ASSUMPTION (the property's CFL condition is written with the cell speeds only)."""
    np = B.np
    m = prim[0]                       # h or rho
    PL, PR = rhs.pL, rhs.pR           # face states actually used by the flux (first order: cell states, ghost states at the walls)
    alphas, betas = [], []
    nf = n + 1
    mLs, mRs = [], []
    for fc in range(nf):
        mL_, mR_ = PL[0][fc], PR[0][fc]
        uL, uR = PL[1][fc], PR[1][fc]
        mLs.append(mL_)
        mRs.append(mR_)
        if mname == 'shallowwater':
            cL, cR = np.sqrt(model.g * mL_), np.sqrt(model.g * mR_)
            sL = np.minimum(0., np.minimum(uL - cL, uR - cR))
            sR = np.maximum(0., np.maximum(uL + cL, uR + cR))
            extra = []
        else:
            g = model.gamma
            pL, pR = PL[2][fc], PR[2][fc]
            cL, cR = np.sqrt(g * pL / mL_), np.sqrt(g * pR / mR_)
            HL = g / (g - 1) * pL / mL_ + uL * uL / 2
            HR = g / (g - 1) * pR / mR_ + uR * uR / 2
            w = np.sqrt(mR_ / mL_)
            uRoe = (uL + uR * w) / (1 + w)
            cRoe = np.sqrt((g - 1) * ((HL + HR * w) / (1 + w) - uRoe * uRoe / 2))
            sL = np.minimum(0., np.minimum(uRoe - cRoe, uL - cL))
            sR = np.maximum(0., np.maximum(uRoe + cRoe, uR + cR))
            extra = [dt * sR <= dx[0] / 2, dt * (-sL) <= dx[0] / 2]
            B.note('hlle: ASSUMED that the time step also respects the Roe-average wave speeds (dt*sR <= dx/2, dt*|sL| <= dx/2)')
        al = sR * (uL - sL) / (sR - sL)
        be = (-sL) * (sR - uR) / (sR - sL)
        alphas.append(al)
        betas.append(be)
        Ff = rhs.flux[0][fc]
        B.ob('chain-A:mass-flux=mL*alpha-mR*beta[%d]' % fc, 'eq', Ff, mL_ * al - mR_ * be, method='sweep', meta={'lemma': True})
        kwb = dict(meta={'sqrt_level': 0, 'lemma': True}, assume=extra, timeout_ms=min(cfg.get('timeout_ms', 20000), 20000) if mname != 'shallowwater' else None)
        B.ob('chain-B:alpha>=0[%d]' % fc, 'le', B.const(0), al, **kwb)
        B.ob('chain-B:beta>=0[%d]' % fc, 'le', B.const(0), be, **kwb)
        B.ob('chain-B:dt*alpha<dx/2[%d]' % fc, 'lt', dt * al, dx[0] / 2, **kwb)
        B.ob('chain-B:dt*beta<=dx/2[%d]' % fc, 'le', dt * be, dx[0] / 2, **kwb)
    if not B.symbolic:
        return
    # C: cut alpha, beta to variables constrained by B only
    av = [B.var('cutA%d' % fc, 0.0, 1.0) for fc in range(nf)]
    bv = [B.var('cutB%d' % fc, 0.0, 1.0) for fc in range(nf)]
    facts = []
    for fc in range(nf):
        facts += [av[fc] >= 0, bv[fc] >= 0, dt * av[fc] < dx[0] / 2, dt * bv[fc] <= dx[0] / 2]
    if cfg['bc'] == 'per':
        facts += [av[0] == av[n], bv[0] == bv[n]]
    lam = dt / dx[0]
    for i in range(n):
        fp, fm = i + 1, i          # faces right / left of cell i
        new = m[i] - lam * ((mLs[fp] * av[fp] - mRs[fp] * bv[fp]) - (mLs[fm] * av[fm] - mRs[fm] * bv[fm]))
        B.ob('chain-C:mass>0-from-A-and-B[%d]' % i, 'lt', B.const(0), new, assume=facts, replayable=False, meta={'lemma': True})


def _hlle_state_chain(cfg, B, model, prim, rhs, f, dt, dx, n):
    """lemma chain for the whole updated state (density AND pressure) of the HLLE scheme; an admissible state is (r, m, E) with r > 0 and
    2 r E - m^2 > 0 (a convex cone; the second condition is p > 0). Links, every one a solver query:
       flux      on the real terms: each component of the code's flux is (sR F(UL) - sL F(UR) + sL sR (UR - UL))/(sR - sL)
       speeds    on the real terms: sL <= 0 <= sR, sL < sR, sL <= uL - cL, sR >= uR + cR
       update    on the real terms: U_i' = w U_i + a U*_{i+1/2} + b U*_{i-1/2},  a = -lam sL_{i+1/2}, b = lam sR_{i-1/2}, w = 1 - a - b,
                 with the HLL average state U* = ((sR UR - F(UR)) + (F(UL) - sL UL))/(sR - sL);  a, b, w >= 0
       M1, M2    for ALL states: s >= u + c  =>  s U - F(U) admissible;   s <= u - c  =>  F(U) - s U admissible
       M3, M4    admissible + admissible, and k * admissible (k > 0), are admissible         (=> U* admissible)
       M6        a combination with weights w, a, b >= 0, w + a + b = 1 of admissible states is admissible (=> U_i' admissible)
    The instantiation of M1-M6 at the real terms is an argument (their premises are exactly the facts proved on the real terms).
    As for the mass chain, that dt respects the Roe-average speeds inside sL, sR is an explicit ASSUMPTION."""
    np = B.np
    g = model.gamma
    PL, PR = rhs.pL, rhs.pR
    nf = n + 1
    lam = dt / dx[0]
    lem = {'lemma': True}
    Ust, sLs, sRs, extras = [], [], [], []

    def cons_flux(r, u, p):
        E = p / (g - 1) + r * u * u / 2
        return [r, r * u, E], [r * u, r * u * u + p, u * (E + p)]
    for fc in range(nf):
        rL, uL, pL = PL[0][fc], PL[1][fc], PL[2][fc]
        rR, uR, pR = PR[0][fc], PR[1][fc], PR[2][fc]
        cL, cR = np.sqrt(g * pL / rL), np.sqrt(g * pR / rR)
        HL = g / (g - 1) * pL / rL + uL * uL / 2
        HR = g / (g - 1) * pR / rR + uR * uR / 2
        w = np.sqrt(rR / rL)
        uRoe = (uL + uR * w) / (1 + w)
        cRoe = np.sqrt((g - 1) * ((HL + HR * w) / (1 + w) - uRoe * uRoe / 2))
        sL = np.minimum(0., np.minimum(uRoe - cRoe, uL - cL))
        sR = np.maximum(0., np.maximum(uRoe + cRoe, uR + cR))
        sLs.append(sL)
        sRs.append(sR)
        UL, FL = cons_flux(rL, uL, pL)
        UR, FR = cons_flux(rR, uR, pR)
        for k, nm in enumerate(('mass', 'momentum', 'energy')):
            B.ob('chain-P:flux-%s=HLL-form[%d]' % (nm, fc), 'eq', rhs.flux[k][fc],
                 (sR * FL[k] - sL * FR[k] + sL * sR * (UR[k] - UL[k])) / (sR - sL), method='sweep', meta=lem)
        kws = dict(meta={'sqrt_level': 0, 'lemma': True}, timeout_ms=min(cfg.get('timeout_ms', 20000), 20000))
        B.ob('chain-P:face-states-admissible[%d]' % fc, 'true', (rL > 0) & (pL > 0) & (rR > 0) & (pR > 0), **kws)
        B.ob('chain-P:sL<=0<=sR[%d]' % fc, 'true', (sL <= 0) & (sR >= 0), **kws)
        B.ob('chain-P:sL<sR[%d]' % fc, 'lt', sL, sR, **kws)
        B.ob('chain-P:sL<=uL-cL[%d]' % fc, 'le', sL, uL - cL, **kws)
        B.ob('chain-P:sR>=uR+cR[%d]' % fc, 'le', uR + cR, sR, **kws)
        extras += [dt * sR <= dx[0] / 2, dt * (-sL) <= dx[0] / 2]
        Ust.append([((sR * UR[k] - FR[k]) + (FL[k] - sL * UL[k])) / (sR - sL) for k in range(3)])
    B.note('hlle: ASSUMED that the time step also respects the Roe-average wave speeds (dt*sR <= dx/2, dt*|sL| <= dx/2)')
    for i in range(n):
        fp, fm = i + 1, i
        a, b = -lam * sLs[fp], lam * sRs[fm]
        wgt = 1 - a - b
        Ui, _ = cons_flux(prim[0][i], prim[1][i], prim[2][i])
        for k, nm in enumerate(('mass', 'momentum', 'energy')):
            B.ob('chain-P:update-%s=convex-combination[%d]' % (nm, i), 'eq', f.data[k][i], wgt * Ui[k] + a * Ust[fp][k] + b * Ust[fm][k],
                 method='sweep', meta=lem, timeout_ms=90000)
        B.ob('chain-P:weights>=0[%d]' % i, 'true', (a >= 0) & (b >= 0) & (wgt >= 0), assume=extras,
             meta={'sqrt_level': 0, 'lemma': True}, timeout_ms=min(cfg.get('timeout_ms', 20000), 20000))
    if not B.symbolic:
        return
    # the convexity lemmas, for ALL values (fresh variables, no relation to the mesh or the data)
    r, u, p, c, s = B.var('Mr', 0.1, 2.0), B.var('Mu'), B.var('Mp', 0.1, 2.0), B.var('Mc', 0.1, 2.0), B.var('Ms')
    U, F = cons_flux(r, u, p)
    st = [r > 0, p > 0, c > 0, c * c * r == g * p]
    kwl = dict(replayable=False, meta=lem)

    def adm(X):
        return (X[0] > 0) & (2 * X[0] * X[2] - X[1] * X[1] > 0)
    B.ob('chain-P:M1:s>=u+c=>sU-F(U)-admissible', 'true', adm([s * U[k] - F[k] for k in range(3)]), assume=st + [s >= u + c], **kwl)
    B.ob('chain-P:M2:s<=u-c=>F(U)-sU-admissible', 'true', adm([F[k] - s * U[k] for k in range(3)]), assume=st + [s <= u - c], **kwl)
    X = [B.var('MX%d' % k) for k in range(3)]
    Y = [B.var('MY%d' % k) for k in range(3)]
    Z = [B.var('MZ%d' % k) for k in range(3)]
    ka, kb = B.var('Ma', 0.0, 1.0), B.var('Mb', 0.0, 1.0)
    B.ob('chain-P:M3:sum-admissible', 'true', adm([X[k] + Y[k] for k in range(3)]), assume=[adm(X), adm(Y)], **kwl)
    B.ob('chain-P:M4:scaled-admissible', 'true', adm([ka * X[k] for k in range(3)]), assume=[adm(X), ka > 0], **kwl)
    comb = [(1 - ka - kb) * X[k] + ka * Y[k] + kb * Z[k] for k in range(3)]
    B.ob('chain-P:M6:convex-combination-admissible(w>0)', 'true', adm(comb), assume=[adm(X), adm(Y), adm(Z), ka >= 0, kb >= 0, ka + kb < 1],
         timeout_ms=120000, **kwl)
    B.ob('chain-P:M6:convex-combination-admissible(w=0)', 'true', adm(comb), assume=[adm(X), adm(Y), adm(Z), ka >= 0, kb >= 0, ka + kb == 1], **kwl)
