"""C15 - the 2D Cartesian solver agrees with the 1D solver and with grid symmetries."""
from . import common as cm

ID = 'C15'
FUNCTIONS = ['flowdyn.modeldisc.fvm2dcart.{calc_grad,calc_bc_grad,interp_face,calc_bc,calc_flux,calc_res}', 'flowdyn.xnum.{extrapol2d1,extrapol2dk}.interp_face',
             'flowdyn.mesh2d.mesh2d.*', 'flowdyn.modelphy.euler.euler2d.{numflux_centeredflux,numflux_hlle,_derived_fromprim,_Roe_average,bc_sym,bc_insub,bc_insup,bc_outsub,bc_outsup,cons2prim,prim2cons}',
             'flowdyn.modeldisc.fvm1d.*', 'flowdyn.xnum.{extrapol1,extrapolk}.interp_face', 'flowdyn.modelphy.euler.euler1d.* (1D counterparts)']
BOUNDS = ('grids (nx,ny) in {(3,2),(2,3)} (thorough + (3,3)), lx != ly symbolic; all admissible data symbolic; fluxes centered, hlle; '
          'reconstructions extrapol2d1 and extrapol2dk(kappa symbolic); (1) data constant along y (resp. x) with a uniform transverse velocity w '
          '(symbolic, incl. 0): rows (columns) of the 2D operator vs the 1D operator on the row, boundary pairs per, insub/outsub, insup/outsup with '
          'walls or periodicity on the other two sides, and wall/outsub with w != 0; (2) transposition (nx<->ny, lx<->ly, u<->v, boundary dictionary transposed); (3) reflection in x '
          'and in y; boundary tags per, sym, insub, insup, outsub, outsup on any side; gamma = 2 (quick) + 7/5 (thorough)')
OUTSIDE = 'larger grids (stencil locality); float round-off'
ASSUMPTIONS = ['with a uniform transverse velocity w the 2D energy residual is the 1D one + w^2/2 * mass residual and the transverse momentum residual is '
               'w * mass residual (the transverse momentum is only advected: "untouched" in primitive terms)']
EXPLANATION = 'Two symbolic runs (2D vs 1D, or 2D vs transformed 2D) of the real operators, compared cell by cell.'


def configs(tier):
    out = []
    q = tier == 'quick'
    grids = [(3, 2), (2, 3)] if q else [(3, 2), (2, 3), (3, 3)]
    gs = ['2'] if q else ['2', '7/5']
    for g in gs:
        # (the thorough tier is sized to end within about an hour on 16 cores: gamma = 7/5 on the two quick grids only)
        for nx, ny in (grids if g == '2' else grids[:2]):
            for fl in ('centered', 'hlle'):
                for num in ('extrapol2d1', 'extrapol2dk'):
                    if q and fl == 'hlle' and num == 'extrapol2dk':
                        continue          # thorough tier only (minutes per configuration)
                    base = {'nx': nx, 'ny': ny, 'flux': fl, 'num': num, 'gamma': g}
                    for axis in ('x', 'y'):
                        for bc in ('per', 'sub', 'sup'):
                            for other in (('per', 'sym') if (not q or bc == 'per') else ('sym',)):
                                out.append(dict(base, part='1d', axis=axis, bc=bc, other=other))
                        # wall + subsonic outlet, periodic on the other two sides: the boundary functions that exist in 1D and 2D and
                        # must leave a (non-zero, symbolic) transverse velocity untouched
                        out.append(dict(base, part='1d', axis=axis, bc='wallout', other='per'))
                    for bcset in ('per', 'duct-sub', 'duct-sup', 'walls'):
                        out.append(dict(base, part='transpose', bcset=bcset))
                        for ax in ('x', 'y'):
                            if q and (nx, ny) != (3, 2) and bcset in ('duct-sup', 'walls'):
                                continue
                            out.append(dict(base, part='reflect', axis=ax, bcset=bcset))
    if not q:
        # thorough = the quick set + (3,3) and gamma = 7/5 for the centered flux + hlle with extrapol2dk on the (3,2) grid
        def keep(c):
            small = (c['nx'], c['ny']) in ((3, 2), (2, 3))
            if c['flux'] == 'centered':
                return True
            if c['num'] == 'extrapol2dk':
                return c['gamma'] == '2' and (c['nx'], c['ny']) == (3, 2)
            return c['gamma'] == '2' and small
        out = [c for c in out if keep(c)]
    for c in out:
        if c['flux'] == 'hlle':
            c['timeout_ms'] = 60000 if q else 300000
            c['budget_s'] = 290 if q else 900
    return out


def _bcs(B, kind, model, prim1):
    """inlet/outlet dictionaries matching nothing in particular (symbolic parameters)"""
    if kind == 'sub':
        return {'type': 'insub', 'ptot': B.pos('ptot', 3.0, 4.0), 'rttot': B.pos('rttot', 0.5, 3.0)}, {'type': 'outsub', 'p': B.pos('pout', 0.2, 1.0)}
    return ({'type': 'insup', 'ptot': B.pos('ptot', 3.0, 4.0), 'rttot': B.pos('rttot', 0.5, 3.0), 'p': B.pos('pin', 0.2, 1.0)},
            {'type': 'outsup'})


def harness(cfg, B):
    return {'1d': _vs1d, 'transpose': _transpose, 'reflect': _reflect}[cfg['part']](cfg, B)


def _num2d(B, fd, cfg, kap):
    return fd.xnum.extrapol2d1() if cfg['num'] == 'extrapol2d1' else fd.xnum.extrapol2dk(kap)


def _vs1d(cfg, B):
    fd = B.fd
    np = B.np
    nx, ny = cfg['nx'], cfg['ny']
    g = B.const(cfg['gamma'])
    axis = cfg['axis']
    m = nx if axis == 'x' else ny          # cells along the varying direction
    model2 = fd.euler.euler2d(gamma=g)
    model1 = fd.euler.euler1d(gamma=g)
    lx, ly = B.pos('lx', 0.5, 3.0), B.pos('ly', 0.5, 3.0)
    mesh2 = cm.mesh2d(B, fd, nx, ny, lx, ly)
    L1 = lx if axis == 'x' else ly
    mesh1 = fd.mesh.unimesh(ncell=m, length=L1)
    rho1, u1, p1, c1 = cm.euler_prim(B, 'w', g, m)
    w = B.var('wt')          # uniform transverse velocity
    kap = B.var('kappa', -1.0, 1.0)
    # 2D field: constant along the other direction
    n = nx * ny
    idx = (lambda c: c % nx) if axis == 'x' else (lambda c: c // nx)
    rho2 = B.array([rho1[idx(c)] for c in range(n)])
    p2 = B.array([p1[idx(c)] for c in range(n)])
    un = [u1[idx(c)] for c in range(n)]
    V2 = B.array([un, [w] * n]) if axis == 'x' else B.array([[w] * n, un])
    bc = cfg['bc']
    if bc == 'per':
        inl = outl = {'type': 'per'}
    elif bc == 'wallout':
        inl, outl = {'type': 'sym'}, {'type': 'outsub', 'p': B.pos('pout', 0.2, 1.0)}
    else:
        inl, outl = _bcs(B, bc, model2, None)
        if bc == 'sub':
            B.assume(p1[0] <= inl['ptot'])
        else:
            B.assume(inl['p'] <= inl['ptot'])
    oth = {'type': cfg['other']}
    if axis == 'x':
        bclist = {'left': inl, 'right': outl, 'bottom': oth, 'top': oth}
    else:
        bclist = {'bottom': inl, 'top': outl, 'left': oth, 'right': oth}
    if cfg['other'] == 'sym' or bc not in ('per', 'wallout'):
        # walls / inlets need a flow aligned with the varying direction (the 2D inlets impose a normal velocity)
        w = B.const(0)
        V2 = B.array([un, [w] * n]) if axis == 'x' else B.array([[w] * n, un])
    rhs2 = fd.modeldisc.fvm2dcart(model2, mesh2, _num2d(B, fd, cfg, kap), bclist, numflux=cfg['flux'])
    num1 = fd.xnum.extrapol1() if cfg['num'] == 'extrapol2d1' else fd.xnum.extrapolk(kap)
    rhs1 = fd.modeldisc.fvm(model1, mesh1, num1, numflux=cfg['flux'], bcL=inl, bcR=outl)
    R2 = rhs2.rhs(fd.field.fdata(model2, mesh2, model2.prim2cons([rho2, V2, p2])))
    R1 = rhs1.rhs(fd.field.fdata(model1, mesh1, model1.prim2cons([rho1, u1, p1])))
    kw = dict(method='sweep')
    for c in range(n):
        i = idx(c)
        mom_n = R2[1][0][c] if axis == 'x' else R2[1][1][c]
        mom_t = R2[1][1][c] if axis == 'x' else R2[1][0][c]
        B.ob('mass[%d]' % c, 'eq', R2[0][c], R1[0][i], **kw)
        B.ob('normal-momentum[%d]' % c, 'eq', mom_n, R1[1][i], **kw)
        B.ob('transverse-momentum[%d]' % c, 'eq', mom_t, w * R1[0][i], **kw)
        B.ob('energy[%d]' % c, 'eq', R2[2][c], R1[2][i] + w * w / 2 * R1[0][i], **kw)


def _bcset(B, cfg):
    """boundary dictionary of the un-transformed problem"""
    s = cfg['bcset']
    if s == 'per':
        return {t: {'type': 'per'} for t in ('left', 'right', 'bottom', 'top')}
    if s == 'walls':
        return {'left': {'type': 'sym'}, 'right': {'type': 'sym'}, 'bottom': {'type': 'per'}, 'top': {'type': 'per'}}
    inl, outl = _bcs(B, 'sub' if s == 'duct-sub' else 'sup', None, None)
    return {'left': inl, 'right': outl, 'bottom': {'type': 'sym'}, 'top': {'type': 'sym'}}


def _run2d(B, fd, cfg, nx, ny, lx, ly, rho, V, p, bclist, kap):
    model = fd.euler.euler2d(gamma=B.const(cfg['gamma']))
    mesh = cm.mesh2d(B, fd, nx, ny, lx, ly)
    rhs = fd.modeldisc.fvm2dcart(model, mesh, _num2d(B, fd, cfg, kap), bclist, numflux=cfg['flux'])
    R = rhs.rhs(fd.field.fdata(model, mesh, model.prim2cons([rho, V, p])))
    return [R[0].copy(), R[1].copy(), R[2].copy()]


def _data(B, cfg, nx, ny):
    n = nx * ny
    rho, V, p, c = cm.euler_prim(B, 'w', B.const(cfg['gamma']), n, twod=True)
    if cfg['bcset'] == 'duct-sub':
        for i in range(n):
            pass
    return rho, V, p


def _transpose(cfg, B):
    fd = B.fd
    nx, ny = cfg['nx'], cfg['ny']
    n = nx * ny
    lx, ly = B.pos('lx', 0.5, 3.0), B.pos('ly', 0.5, 3.0)
    kap = B.var('kappa', -1.0, 1.0)
    rho, V, p = _data(B, cfg, nx, ny)
    bcA = _bcset(B, cfg)
    if cfg['bcset'] == 'duct-sub':
        for j in range(ny):
            B.assume(p[j * nx] <= bcA['left']['ptot'])
    if cfg['bcset'] == 'duct-sup':
        B.assume(bcA['left']['p'] <= bcA['left']['ptot'])
    RA = _run2d(B, fd, cfg, nx, ny, lx, ly, rho, V, p, bcA, kap)
    # transposed problem: cell (i,j) of A is cell (j,i) of B on an ny x nx grid
    tr = [0] * n
    for j in range(ny):
        for i in range(nx):
            tr[i * ny + j] = j * nx + i          # B index -> A index
    rhoB = B.array([rho[tr[c]] for c in range(n)])
    pB = B.array([p[tr[c]] for c in range(n)])
    VB = B.array([[V[1][tr[c]] for c in range(n)], [V[0][tr[c]] for c in range(n)]])
    tmap = {'left': 'bottom', 'right': 'top', 'bottom': 'left', 'top': 'right'}
    bcB = {tmap[t]: v for t, v in bcA.items()}
    RB = _run2d(B, fd, cfg, ny, nx, ly, lx, rhoB, VB, pB, bcB, kap)
    kw = dict(method='sweep')
    for c in range(n):
        a = tr[c]
        B.ob('mass[%d]' % c, 'eq', RB[0][c], RA[0][a], **kw)
        B.ob('xmom_B=ymom_A[%d]' % c, 'eq', RB[1][0][c], RA[1][1][a], **kw)
        B.ob('ymom_B=xmom_A[%d]' % c, 'eq', RB[1][1][c], RA[1][0][a], **kw)
        B.ob('energy[%d]' % c, 'eq', RB[2][c], RA[2][a], **kw)


def _reflect(cfg, B):
    fd = B.fd
    nx, ny = cfg['nx'], cfg['ny']
    n = nx * ny
    ax = cfg['axis']
    lx, ly = B.pos('lx', 0.5, 3.0), B.pos('ly', 0.5, 3.0)
    kap = B.var('kappa', -1.0, 1.0)
    rho, V, p = _data(B, cfg, nx, ny)
    bcA = _bcset(B, cfg)
    if cfg['bcset'] == 'duct-sub':
        for j in range(ny):
            B.assume(p[j * nx] <= bcA['left']['ptot'])
    if cfg['bcset'] == 'duct-sup':
        B.assume(bcA['left']['p'] <= bcA['left']['ptot'])
    RA = _run2d(B, fd, cfg, nx, ny, lx, ly, rho, V, p, bcA, kap)
    rf = [0] * n
    for j in range(ny):
        for i in range(nx):
            rf[j * nx + i] = (j * nx + (nx - 1 - i)) if ax == 'x' else ((ny - 1 - j) * nx + i)
    sx, sy = (-1, 1) if ax == 'x' else (1, -1)
    rhoB = B.array([rho[rf[c]] for c in range(n)])
    pB = B.array([p[rf[c]] for c in range(n)])
    VB = B.array([[sx * V[0][rf[c]] for c in range(n)], [sy * V[1][rf[c]] for c in range(n)]])
    rmap = {'left': 'right', 'right': 'left', 'bottom': 'bottom', 'top': 'top'} if ax == 'x' else \
        {'left': 'left', 'right': 'right', 'bottom': 'top', 'top': 'bottom'}
    bcB = {rmap[t]: v for t, v in bcA.items()}
    RB = _run2d(B, fd, cfg, nx, ny, lx, ly, rhoB, VB, pB, bcB, kap)
    kw = dict(method='sweep')
    for c in range(n):
        a = rf[c]
        B.ob('mass[%d]' % c, 'eq', RB[0][c], RA[0][a], **kw)
        B.ob('xmom[%d]' % c, 'eq', RB[1][0][c], sx * RA[1][0][a], **kw)
        B.ob('ymom[%d]' % c, 'eq', RB[1][1][c], sy * RA[1][1][a], **kw)
        B.ob('energy[%d]' % c, 'eq', RB[2][c], RA[2][a], **kw)
