"""C04 - convergence at the design order: the decidable part (design order of the discrete operator for linear convection)."""
from fractions import Fraction
from . import common as cm

ID = 'C04'
FUNCTIONS = ['flowdyn.modeldisc.fvm1d.rhs (convection, uniform periodic mesh)', 'flowdyn.xnum.{extrapol1,extrapol2,extrapolk,extrapol3,centered,fromm,quick}.interp_face',
             'flowdyn.modelphy.convection.model.numflux', 'flowdyn.mesh.mesh1d.__init__']
BOUNDS = ('uniform periodic mesh of 7 cells with symbolic spacing h and symbolic speed a of either sign; cell averages of the monomials x^m, '
          'm = 0..p+1; the residual of the cell in the middle (its stencil does not touch the seam) is compared with the exact time derivative of '
          'the cell average, -a*(x_{i+1/2}^m - x_{i-1/2}^m)/h: equal for every m <= p (p = 1 extrapol1; 2 extrapol2, extrapolk(kappa symbolic), '
          'centered, fromm, quick; 3 extrapol3) and different for m = p+1 (the order is exactly p); extrapolk is third order iff kappa = 1/3')
OUTSIDE = ('NOT APPLICABLE to this technique and not claimed: (a) the Euler Riemann-problem clause (monotone decrease of the L1 error under mesh '
           'refinement against the exact self-similar solution) and (b) agreement of the packaged reference solutions (aerokit, iterative root finding) with '
           'an independent exact solver: both are statements about whole-program runs whose trip counts grow with the input, there is no bounded kernel to '
           'encode. Convergence of the linear schemes then follows from consistency at order p + stability (Lax-Richtmyer), a theorem that is not re-proved; '
           'temporal order is C05/C06; limited MUSCL is second order where the limiter returns the centred slope (linear exactness: C11)')
ASSUMPTIONS = ['polynomial exactness up to degree p of the semi-discrete operator = design order p on smooth data (Taylor expansion)']
EXPLANATION = 'Polynomial identities in h, a (and kappa) over the traced residual of the real operator.'
LEVEL_TEXT = ('Bounded SMT verification of the real space operator: design order of every unlimited reconstruction for linear convection is decided '
              'for all spacings and speeds. The Riemann-problem convergence and aerokit-agreement clauses of the property are NOT covered (see level_note).')

ORDER = {'extrapol1': 1, 'extrapol2': 2, 'extrapolk': 2, 'centered': 2, 'fromm': 2, 'quick': 2, 'extrapol3': 3}


def configs(tier):
    out = []
    for num in ORDER:
        for sp in ('pos', 'neg'):
            out.append({'num': num, 'speed': sp})
    return out


def _cellavg(B, xc, h, m):
    hi, lo = xc + h / 2, xc - h / 2
    return (hi ** (m + 1) - lo ** (m + 1)) / ((m + 1) * h)


def _run(B, cfg, a, Lh, n, m, kap=None):
    fd = B.fd
    mesh = fd.mesh.unimesh(ncell=n, length=Lh)
    h = Lh / n
    model = fd.convection.model(a)
    num = fd.xnum.extrapolk(kap) if cfg['num'] == 'extrapolk' else getattr(fd.xnum, cfg['num'])()
    for other in (lambda: fd.xnum.extrapolk(B.const('7/10')), fd.xnum.extrapol2, fd.xnum.centered, fd.xnum.extrapol3, fd.xnum.quick):
        other()         # schemes created after the one under test must not change it (no class-level state)
    rhs = fd.modeldisc.fvm(model, mesh, num)
    xc = mesh.centers()
    u = B.array([_cellavg(B, xc[j], h, m) if m > 0 else xc[j] * 0 + 1 for j in range(n)])
    R = rhs.rhs(fd.field.fdata(model, mesh, [u]))[0]
    i = n // 2
    exact = -a * ((xc[i] + h / 2) ** m - (xc[i] - h / 2) ** m) / h if m > 0 else a * 0
    return R[i], exact, h, num


def harness(cfg, B):
    n = 7
    p = ORDER[cfg['num']]
    a = B.var('aconv')
    B.assume(a > 0 if cfg['speed'] == 'pos' else a < 0)
    Lh = B.pos('len', 0.5, 3.0)
    kap = B.var('kappa', -1.0, 1.0) if cfg['num'] == 'extrapolk' else None
    tol = B.const(Fraction(1, 2 ** 48))
    for m in range(0, p + 1):
        r, ex, h, num = _run(B, cfg, a, Lh, n, m, kap)
        if cfg['num'] in ('extrapol3', 'quick', 'fromm') and m == p:
            # kprec is the double nearest to its nominal value: exact to that rounding
            B.ob('exact-for-x^%d' % m, 'le', abs(r - ex), abs(a) * h ** (m - 1) * tol * 64, tol=1e-9)
        else:
            B.ob('exact-for-x^%d' % m, 'eq', r, ex)
    # the order is exactly p: degree p+1 is not reproduced (decided at a concrete spacing and speed)
    one = B.const(1 if cfg['speed'] == 'pos' else -1)
    kc = B.const(Fraction(1, 5)) if cfg['num'] == 'extrapolk' else None
    r, ex, h, num = _run(B, cfg, one, B.const(7), n, p + 1, kc)
    B.ob('not-exact-for-x^%d' % (p + 1), 'lt', B.const(Fraction(1, 1000)), abs(r - ex), meta={'note': 'order is exactly p'})
    if cfg['num'] == 'extrapolk':
        # third order iff kappa = 1/3
        r, ex, h, num = _run(B, cfg, a, Lh, n, 3, B.const(Fraction(1, 3)))
        B.ob('kappa=1/3:exact-for-x^3', 'eq', r, ex)
        r, ex, h, num = _run(B, cfg, a, Lh, n, 3, kap)
        B.ob('kappa!=1/3:not-exact-for-x^3', 'lt', B.const(0), abs(r - ex), assume=[abs(kap - B.const(Fraction(1, 3))) > 0])
