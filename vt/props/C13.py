"""C13 - the 1D solver commutes with reflection and with change of units."""
from fractions import Fraction
from . import common as cm
from . import stubs

ID = 'C13'
FUNCTIONS = ['flowdyn.integration.implicitmodel.calc_jacobian (units of the finite-difference Jacobian)', 'flowdyn.modeldisc.fvm1d.{cons2prim,calc_grad,calc_bc_grad,interp_face,calc_bc,calc_flux,calc_res,calc_timestep}',
             'flowdyn.xnum.* interp_face (all 1D reconstructions, limiters)', 'flowdyn.modelphy.*.bc_* (with dir=-1/+1)',
             'flowdyn.modelphy.*.numflux_* (inline: every flux for the units clause; every flux except hllc for the reflection clause, hllc '
             'through its mirror contract proved in C02)', 'flowdyn.modelphy.*.{cons2prim,prim2cons,timestep}',
             'flowdyn.integration.*.step (all classes)', 'flowdyn.integration.implicitmodel.{calc_jacobian,solve_implicit}']
BOUNDS = ('operator level: n=4 cells, arbitrary monotone faces, all admissible data symbolic, scale factors symbolic > 0; reflection: every '
          'model with (i) an abstract numerical flux constrained only by the mirror contract of C02 (covers every flux that has it, hllc '
          'included) and (ii) the real fluxes inline (except hllc), x {periodic, sym, dirichlet, every inlet/outlet pair in both orientations}; '
          'units: real fluxes inline (all), reconstructions incl. minmod/superbee inline and an abstract positively homogeneous limiter '
          'phi(a,b)=a*psi(b/a). Integrator level: one step of every integrator on two stub right-hand sides tied by the transformation M '
          '(B returns M.K_j when evaluated at M.(stage j of A), which is itself an obligation); gamma=2 (quick) + 7/5 (thorough)')
OUTSIDE = ('vanalbada/vanleer are not homogeneous over the reals (1e-20/1e-40 regularisation): covered by the abstract homogeneous limiter '
           'and C12\'s tolerance; bit-for-bit equality for power-of-two factors follows from exactness over the reals plus IEEE scaling '
           'invariance in the absence of over/underflow (not re-proved); several steps by induction')
ASSUMPTIONS = ['flux mirror contract F_k(WL,WR) = parity_k * F_k(mirror WR, mirror WL) is taken from C02 for the abstract-flux configurations']
EXPLANATION = 'Two symbolic runs of the real operator / integrator on a problem and its transformed twin.'

PAR = {'convection': [1], 'burgers': [-1], 'shallowwater': [1, -1], 'euler1d': [1, -1, 1]}      # parity of the conserved variables
PRIMPAR = {'convection': [1], 'burgers': [-1], 'shallowwater': [1, -1], 'euler1d': [1, -1, 1]}
FLUXPAR = {'convection': [-1], 'burgers': [1], 'shallowwater': [-1, 1], 'euler1d': [-1, 1, -1]}
EULER_BC = [('sym', 'sym'), ('insub', 'outsub'), ('insub_cbc', 'outsub_qtot'), ('insup', 'outsup'), ('insub', 'outsub_rh'),
            ('insub_cbc', 'outsub_nrcbc'), ('dirichlet', 'outsub_prim')]
INTEGS = ['explicit', 'rk2', 'rk2_heun', 'rk3_heun', 'rk3ssp', 'rk4', 'lsrk25bb', 'lsrk26bb', 'lsrk4', 'implicit', 'trapezoidal', 'gear']


def configs(tier):
    out = []
    q = tier == 'quick'
    gs = ['2'] if q else ['2', '7/5']
    # (the thorough tier is sized to end within about an hour on 16 cores)
    nums = ['extrapol3', 'muscl:minmod'] if q else ['extrapol1', 'extrapolk', 'extrapol3', 'muscl:minmod', 'muscl:vanalbada']
    # ---- reflection, operator level
    for model in ('convection', 'burgers', 'shallowwater', 'euler1d'):
        fluxes = ['abstract'] + [f for f in cm.FLUXES[model] if f != 'hllc']
        if q and model == 'euler1d':
            fluxes = ['abstract', 'hlle', 'centered']
        for fl in fluxes:
            for num in nums:
                if q and fl == 'hlle' and num == 'extrapol3':
                    continue
                bcs = [('per', 'per')]
                if model == 'euler1d':
                    bcs += EULER_BC if (not q or (num == 'extrapol3' and fl != 'hlle')) else [('sym', 'sym'), ('insub', 'outsub')]
                elif model == 'shallowwater':
                    bcs += [('sym', 'inf'), ('dirichlet', 'sym')]
                else:
                    bcs += [('dirichlet', 'dirichlet')]
                if q and model == 'burgers' and fl != 'abstract' and num != 'muscl:minmod':
                    continue
                if not q and model == 'euler1d' and num not in ('extrapol3', 'muscl:minmod'):
                    continue          # Euler: the reconstructions of the quick tier (with gamma = 7/5 for extrapol3)
                for bc in bcs:
                    for g in ((gs if (q or num == 'extrapol3') else gs[:1]) if model == 'euler1d' else [None]):
                        c = {'level': 'operator', 'clause': 'reflection', 'model': model, 'flux': fl, 'num': num, 'bc': list(bc), 'n': 4}
                        if g:
                            c['gamma'] = g
                        if model == 'burgers' and fl != 'abstract':
                            c.update(explore=True, no_feasibility=True, n=3)
                        if not q:
                            c.update(timeout_ms=120000, budget_s=600)
                        out.append(c)
    # ---- units, component level (the operator is a composition of these homogeneous maps)
    for model in ('convection', 'burgers', 'shallowwater', 'euler1d'):
        for g in (gs if model == 'euler1d' else [None]):
            for fl in cm.FLUXES[model]:
                c = {'level': 'flux-units', 'model': model, 'flux': fl}
                if g:
                    c['gamma'] = g
                if model == 'burgers':
                    c.update(explore=True, no_feasibility=True)
                if fl == 'hllc':
                    c.update(sweep_budget_s=400, budget_s=900, timeout_ms=60000)
                out.append(c)
            c = {'level': 'state-units', 'model': model}
            if g:
                c['gamma'] = g
            out.append(c)
    for g in gs:
        for bc in ('sym', 'insub', 'insub_cbc', 'insup', 'outsub', 'outsub_prim', 'outsub_qtot', 'outsub_rh', 'outsub_nrcbc', 'outsup', 'dirichlet'):
            for dr in (-1, 1):
                out.append({'level': 'bc-units', 'model': 'euler1d', 'bc': bc, 'dir': dr, 'gamma': g})
    for bc in ('sym', 'inf', 'dirichlet'):
        out.append({'level': 'bc-units', 'model': 'shallowwater', 'bc': bc, 'dir': 1})
    for num in nums + ['muscl:abstract']:
        if num in ('muscl:vanleer', 'muscl:vanalbada'):
            continue
        for bc in (('per', 'per'), ('dirichlet', 'dirichlet')):
            c = {'level': 'operator', 'clause': 'units', 'model': 'convection', 'flux': None, 'num': num, 'bc': list(bc), 'n': 4}
            if num == 'muscl:abstract' or not q:
                c.update(timeout_ms=120000, budget_s=280 if q else 1200)
            out.append(c)
    # ---- the finite-difference Jacobian of the implicit family (its perturbation must scale with the state: no absolute scale)
    for model, fl in (('euler1d', 'centered'), ('shallowwater', 'centered'), ('convection', None)):
        c = {'level': 'jacobian-units', 'model': model, 'flux': fl, 'explore': True, 'n': 3}
        if model == 'euler1d':
            if q:
                continue          # 81 entries: thorough tier only
            c.update(gamma='2', budget_s=1800)
        out.append(c)
    # ---- driver level: solve() with save times on a problem and its rescaled / reflected twin
    for clause in ('reflection', 'units'):
        for integ in (('explicit', 'rk3ssp') if q else ('explicit', 'rk2', 'rk3ssp', 'rk4', 'lsrk25bb')):
            out.append({'level': 'driver', 'clause': clause, 'integrator': integ, 'S': 1, 'K': 2, 'explore': True, 'feas_timeout_ms': 3000})
            if not q:
                out.append({'level': 'driver', 'clause': clause, 'integrator': integ, 'S': 2, 'K': 3, 'explore': True, 'feas_timeout_ms': 3000})
    # ---- integrator level
    for integ in INTEGS:
        for clause in ('reflection', 'units'):
            c = {'level': 'integrator', 'clause': clause, 'integrator': integ}
            if integ in ('implicit', 'trapezoidal', 'gear'):
                c['explore'] = True
                c['timeout_ms'] = 60000
                c['feas_timeout_ms'] = 1500
                if integ == 'gear' and clause == 'units':
                    c['timeout_ms'] = 8000 if q else 600000
                    c['budget_s'] = 280 if q else 1800
            out.append(c)
    return out


def harness(cfg, B):
    return {'operator': _operator, 'integrator': _integrator, 'flux-units': _flux_units, 'bc-units': _bc_units,
            'state-units': _state_units, 'driver': _driver, 'jacobian-units': _jacobian_units}[cfg['level']](cfg, B)


def _jacobian_units(cfg, B):
    """calc_jacobian of the real operator in two unit systems: J_B[(i,k),(j,q)] = J_A[(i,k),(j,q)] * scale(Q_k)/scale(Q_q) / scale(time)"""
    fd = B.fd
    mname, n = cfg['model'], cfg['n']
    modelA = cm.make_model(B, fd, cfg)
    sc = _scales(B, mname)
    modelB = _scaled_model(B, fd, cfg, modelA, sc)
    primA, consA = cm.make_state(B, mname, modelA, n)
    consB = [c * s for c, s in zip(consA, sc['cons'])]
    zero = B.const(0)
    for c in consA:
        B.assume(sum((abs(x) for x in c), zero) > 0)
    xf = cm.mono_faces(B, n)
    meshA = cm.mesh_with_faces(B, fd, xf)
    meshB = cm.mesh_with_faces(B, fd, xf * sc['len'])
    per = {'type': 'per'}
    rA = fd.modeldisc.fvm(modelA, meshA, fd.xnum.extrapol1(), numflux=cfg.get('flux'), bcL=per, bcR=per)
    rB = fd.modeldisc.fvm(modelB, meshB, fd.xnum.extrapol1(), numflux=cfg.get('flux'), bcL=per, bcR=per)
    JA = fd.integration.implicit(meshA, rA).calc_jacobian(fd.field.fdata(modelA, meshA, [c.copy() for c in consA]))
    JB = fd.integration.implicit(meshB, rB).calc_jacobian(fd.field.fdata(modelB, meshB, [c.copy() for c in consB]))
    neq = modelA.neq
    scl = [sc['_a'], sc['_b'], sc['_l']]
    for i in range(n):
        for k in range(neq):
            for j in range(n):
                for q in range(neq):
                    B.ob('J(scaled)=scale*J[%d,%d][%d,%d]' % (i, k, j, q), 'eq', JB[i * neq + k][j * neq + q],
                         JA[i * neq + k][j * neq + q] * sc['cons'][k] / sc['cons'][q] / sc['time'], method='sweep', scales=scl)


def _scaled_model(B, fd, cfg, modelA, sc):
    mname = cfg['model']
    if mname == 'convection':
        return fd.convection.model(modelA.convcoef * sc['speed'])
    if mname == 'shallowwater':
        return fd.shallowwater.shallowwater1d(g=modelA.g * sc['g'])
    return cm.make_model(B, fd, cfg)


def _flux_units(cfg, B):
    """one face: F(scaled WL, scaled WR) = scale_F * F(WL, WR) with scale_F = (conservative scale) * (velocity scale)"""
    from . import C02
    fd = B.fd
    mname = cfg['model']
    modelA = cm.make_model(B, fd, cfg)
    sc = _scales(B, mname)
    modelB = _scaled_model(B, fd, cfg, modelA, sc)
    WL, cL = C02._state(B, mname, modelA, 'l')
    WR, cR = C02._state(B, mname, modelA, 'r')
    FA = C02._numflux(B, mname, modelA, cfg['flux'], WL, WR)
    FB = C02._numflux(B, mname, modelB, cfg['flux'], [w * s for w, s in zip(WL, sc['prim'])], [w * s for w, s in zip(WR, sc['prim'])])
    vel = sc['len'] / sc['time']
    scl = [sc['_a'], sc['_b'], sc['_l']]
    kw = dict(method='sweep', scales=scl)
    for k in range(len(FA)):
        B.ob('F(scaled)=scale*F:eq%d' % k, 'eq', FB[k], FA[k] * sc['cons'][k] * vel, **kw)


def _state_units(cfg, B):
    fd = B.fd
    mname = cfg['model']
    n = 2
    modelA = cm.make_model(B, fd, cfg)
    sc = _scales(B, mname)
    modelB = _scaled_model(B, fd, cfg, modelA, sc)
    primA, consA = cm.make_state(B, mname, modelA, n)
    consB = [c * s for c, s in zip(consA, sc['cons'])]
    pB = modelB.cons2prim(consB)
    for k in range(len(primA)):
        B.eq_arrays('cons2prim(scaled)=scaled-prim[%d]' % k, pB[k], primA[k] * sc['prim'][k], method='sweep')
    qB = modelB.prim2cons([p * s for p, s in zip(primA, sc['prim'])])
    for k in range(len(consA)):
        B.eq_arrays('prim2cons(scaled)=scaled-cons[%d]' % k, qB[k], consA[k] * sc['cons'][k], method='sweep')
    xf = cm.mono_faces(B, n)
    meshA = cm.mesh_with_faces(B, fd, xf)
    meshB = cm.mesh_with_faces(B, fd, xf * sc['len'])
    cfl = B.pos('cfl', 0.1, 1.0)
    if mname == 'burgers':
        for i in range(n):
            B.assume(abs(consA[0][i]) > 0)
    rA = fd.modeldisc.fvm(modelA, meshA, fd.xnum.extrapol1())
    rB = fd.modeldisc.fvm(modelB, meshB, fd.xnum.extrapol1())
    dtA = rA.calc_timestep(fd.field.fdata(modelA, meshA, consA), cfl)
    dtB = rB.calc_timestep(fd.field.fdata(modelB, meshB, consB), cfl)
    for i in range(n):
        B.ob('dt(scaled)=(l/b)*dt[%d]' % i, 'eq', dtB[i], dtA[i] * sc['time'], method='sweep')


def _bc_units(cfg, B):
    fd = B.fd
    mname, bc, dr = cfg['model'], cfg['bc'], cfg['dir']
    modelA = cm.make_model(B, fd, cfg)
    sc = _scales(B, mname)
    modelB = _scaled_model(B, fd, cfg, modelA, sc)
    primA, consA = cm.make_state(B, mname, modelA, 1)
    prmA = _bc(B, mname, modelA, bc, 'L')
    if bc == 'insub':
        B.assume(primA[2][0] <= prmA['ptot'])
    if bc == 'insup':
        B.assume(prmA['p'] <= prmA['ptot'])
    prmB = _bc(B, mname, modelB, None, '', scale=sc, ref=prmA)
    rA = modelA.namedBC(bc, dr, primA, prmA)
    rB = modelB.namedBC(bc, dr, [p * s for p, s in zip(primA, sc['prim'])], prmB)
    for k in range(len(primA)):
        a_ = rA[k] if hasattr(rA[k], '__len__') else B.array([rA[k]])
        b_ = rB[k] if hasattr(rB[k], '__len__') else B.array([rB[k]])
        B.ob('bc(scaled)=scaled-bc[%d]' % k, 'eq', b_[0], a_[0] * sc['prim'][k], method='sweep')


# ----------------------------------------------------------------------------------------
def _mirror_prim(model_name, W):
    return [w * s for w, s in zip(W, PRIMPAR[model_name])]


def _abstract_flux(B, model_name, model, param=None):
    """uninterpreted numerical flux with the mirror contract built in:
    F_k(WL,WR) = G_k(WL,WR) + parity_k*G_k(mirror WR, mirror WL)"""
    from vt import term as tm
    from vt.sym import P, L
    neq = model.neq
    fpar = FLUXPAR[model_name]
    ppar = PRIMPAR[model_name]

    def numflux(name, pL, pR, dir=None):
        nf = len(pL[0])
        out = [[None] * nf for _ in range(neq)]
        a = [L(model.convcoef)] if model_name == 'convection' else []
        am = [tm.neg(x) for x in a]
        for f in range(nf):
            WL = [L(pL[k][f]) for k in range(neq)]
            WR = [L(pR[k][f]) for k in range(neq)]
            mL = [tm.mul(tm.const(ppar[k]), WR[k]) for k in range(neq)]
            mR = [tm.mul(tm.const(ppar[k]), WL[k]) for k in range(neq)]
            for k in range(neq):
                g1 = tm.uf('G%d' % k, *(a + WL + WR))
                g2 = tm.uf('G%d' % k, *(am + mL + mR))
                out[k][f] = P(tm.add(g1, tm.mul(tm.const(fpar[k]), g2)))
        return [B.array(o) for o in out]
    B.note('abstract numerical flux: uninterpreted G symmetrised so that the mirror contract of C02 holds by construction')
    return numflux


def _abstract_homogeneous_limiter(B):
    from vt import term as tm
    from vt.sym import P, L
    import numpy as rnp

    def one(x, y):
        x, y = L(x), L(y)
        if x is tm.ZERO:
            return P(tm.ZERO)
        return P(tm.mul(x, tm.uf('psi', tm.div(y, x))))

    def phi(x, y):
        return B.array(list(rnp.frompyfunc(one, 2, 1)(x.view(rnp.ndarray), y.view(rnp.ndarray))))
    B.note('abstract limiter: phi(a,b) = a*psi(b/a) with psi uninterpreted (every positively homogeneous limiter, a != 0)')
    return phi


def _bc(B, model_name, model, name, tag, scale=None, mirror=False, ref=None):
    """boundary-condition dictionary `name`; when ref is given, the transformed copy of ref"""
    if ref is not None:
        d = {'type': ref['type']}
        for k, v in ref.items():
            if k == 'type':
                continue
            if k == 'prim':
                vals = list(v)
                if mirror:
                    vals = [x * s for x, s in zip(vals, PRIMPAR[model_name])]
                if scale:
                    vals = [x * s for x, s in zip(vals, scale['prim'])]
                d[k] = vals
            else:
                d[k] = v * scale['bc'][k] if scale else v
        return d
    d = {'type': name}
    if name in ('insub', 'insub_cbc', 'insup'):
        d['ptot'] = B.pos(tag + 'ptot', 3.0, 4.0)
        d['rttot'] = B.pos(tag + 'rttot', 0.5, 3.0)
    if name in ('insup', 'outsub', 'outsub_prim', 'outsub_qtot', 'outsub_rh', 'outsub_nrcbc'):
        d['p'] = B.pos(tag + 'p', 0.2, 1.0)
    if name == 'dirichlet':
        if model_name == 'euler1d':
            d['prim'] = [B.pos(tag + 'dr', 0.5, 2.0), B.var(tag + 'du'), B.pos(tag + 'dp', 0.5, 2.0)]
        elif model_name == 'shallowwater':
            d['prim'] = [B.pos(tag + 'dh', 0.5, 2.0), B.var(tag + 'du')]
        else:
            d['prim'] = [B.var(tag + 'dq')]
    return d


def _scales(B, model_name):
    """unit change: density-like a, velocity-like b, length l"""
    a, b, l = B.pos('sa', 0.5, 2.0), B.pos('sb', 0.5, 2.0), B.pos('sl', 0.5, 2.0)
    return dict(_scales0(model_name, a, b, l), _a=a, _b=b, _l=l)


def _scales0(model_name, a, b, l):
    if model_name == 'convection':
        return {'prim': [a], 'cons': [a], 'res': [a * b / l], 'speed': b, 'len': l, 'time': l / b, 'bc': {}}
    if model_name == 'burgers':
        return {'prim': [b], 'cons': [b], 'res': [b * b / l], 'len': l, 'time': l / b, 'bc': {}}
    if model_name == 'shallowwater':
        return {'prim': [a, b], 'cons': [a, a * b], 'res': [a * b / l, a * b * b / l], 'g': b * b / a, 'len': l, 'time': l / b, 'bc': {}}
    return {'prim': [a, b, a * b * b], 'cons': [a, a * b, a * b * b], 'res': [a * b / l, a * b * b / l, a * b * b * b / l], 'len': l,
            'time': l / b, 'bc': {'ptot': a * b * b, 'p': a * b * b, 'rttot': b * b}}


def _operator(cfg, B):
    fd = B.fd
    np = B.np
    mname, clause, n = cfg['model'], cfg['clause'], cfg['n']
    neq = len(PAR[mname])
    modelA = cm.make_model(B, fd, cfg)
    xf = cm.mono_faces(B, n)
    primA, consA = cm.make_state(B, mname, modelA, n)
    bcLn, bcRn = cfg['bc']
    bcLA = {'type': 'per'} if bcLn == 'per' else _bc(B, mname, modelA, bcLn, 'L')
    bcRA = {'type': 'per'} if bcRn == 'per' else _bc(B, mname, modelA, bcRn, 'R')
    if bcLn in ('insub', 'insup') :
        B.assume(primA[2][0] <= bcLA['ptot']) if bcLn == 'insub' else B.assume(bcLA['p'] <= bcLA['ptot'])

    def mknum():
        if cfg['num'] == 'muscl:abstract':
            return fd.xnum.muscl(_abstract_homogeneous_limiter(B))
        return cm.make_num(B, fd, cfg['num'])
    if clause == 'reflection':
        if mname == 'convection':
            modelB = fd.convection.model(-modelA.convcoef)
        else:
            modelB = cm.make_model(B, fd, cfg)
        xfB = B.array([-xf[n - i] for i in range(n + 1)])
        consB = [B.array([consA[k][n - 1 - i] * PAR[mname][k] for i in range(n)]) for k in range(neq)]
        bcLB = {'type': 'per'} if bcRn == 'per' else _bc(B, mname, modelB, None, '', mirror=True, ref=bcRA)
        bcRB = {'type': 'per'} if bcLn == 'per' else _bc(B, mname, modelB, None, '', mirror=True, ref=bcLA)
        scale = None
    else:
        sc = _scales(B, mname)
        if mname == 'convection':
            modelB = fd.convection.model(modelA.convcoef * sc['speed'])
        elif mname == 'shallowwater':
            modelB = fd.shallowwater.shallowwater1d(g=modelA.g * sc['g'])
        else:
            modelB = cm.make_model(B, fd, cfg)
        xfB = xf * sc['len']
        consB = [consA[k] * sc['cons'][k] for k in range(neq)]
        bcLB = {'type': 'per'} if bcLn == 'per' else _bc(B, mname, modelB, None, '', scale=sc, ref=bcLA)
        bcRB = {'type': 'per'} if bcRn == 'per' else _bc(B, mname, modelB, None, '', scale=sc, ref=bcRA)
    if cfg['flux'] == 'abstract':
        modelA.numflux = _abstract_flux(B, mname, modelA)
        modelB.numflux = _abstract_flux(B, mname, modelB)
    meshA = cm.mesh_with_faces(B, fd, xf)
    meshB = cm.mesh_with_faces(B, fd, xfB)
    flux = None if cfg['flux'] == 'abstract' else cfg['flux']
    rhsA = fd.modeldisc.fvm(modelA, meshA, mknum(), numflux=flux, bcL=bcLA, bcR=bcRA)
    rhsB = fd.modeldisc.fvm(modelB, meshB, mknum(), numflux=flux, bcL=bcLB, bcR=bcRB)
    RA = [r.copy() for r in rhsA.rhs(fd.field.fdata(modelA, meshA, [c.copy() for c in consA]))]
    RB = [r.copy() for r in rhsB.rhs(fd.field.fdata(modelB, meshB, [c.copy() for c in consB]))]
    replayable = cfg['flux'] != 'abstract' and cfg['num'] != 'muscl:abstract'
    kw = dict(method='sweep', replayable=replayable)
    if clause == 'units':
        kw['scales'] = [sc['_a'], sc['_b'], sc['_l']]
    cfl = B.pos('cfl', 0.1, 1.0)
    if mname == 'burgers':
        for i in range(n):
            B.assume(abs(consA[0][i]) > 0)
    dtA = rhsA.calc_timestep(fd.field.fdata(modelA, meshA, consA), cfl)
    dtB = rhsB.calc_timestep(fd.field.fdata(modelB, meshB, consB), cfl)
    for k in range(neq):
        for i in range(n):
            if clause == 'reflection':
                B.ob('R_B=mirror(R_A):eq%d[%d]' % (k, i), 'eq', RB[k][i], RA[k][n - 1 - i] * PAR[mname][k], **kw)
            else:
                B.ob('R_B=scale*R_A:eq%d[%d]' % (k, i), 'eq', RB[k][i], RA[k][i] * sc['res'][k], **kw)
    for i in range(n):
        if clause == 'reflection':
            B.ob('dt_B=mirror(dt_A)[%d]' % i, 'eq', dtB[i], dtA[n - 1 - i], **kw)
        else:
            B.ob('dt_B=(l/b)*dt_A[%d]' % i, 'eq', dtB[i], dtA[i] * sc['time'], **kw)


# ----------------------------------------------------------------------------------------
def _integrator(cfg, B):
    """two stub right-hand sides tied by the transformation M: B evaluated at M.(stage j of A) returns M.K_j"""
    integ, clause = cfg['integrator'], cfg['clause']
    n = 3
    if clause == 'reflection':
        par = -1      # an odd variable (the general case; an even one is par=+1 with the same code path)
        tsc = B.const(1)

        def M(v):
            return B.array([par * v[n - 1 - i] for i in range(n)])
        ksc = B.const(1)
    else:
        s = B.pos('sq', 0.5, 2.0)
        tsc = B.pos('st', 0.5, 2.0)

        def M(v):
            return B.array([s * v[i] for i in range(n)])
        ksc = 1 / tsc
    if integ in ('implicit', 'trapezoidal', 'gear'):
        return _integrator_implicit(cfg, B, n, M, (lambda v: M(v)) if clause == 'reflection' else (lambda v: B.array([v[i] / s for i in range(n)])),
                                    tsc, ksc, [] if clause == 'reflection' else [s, tsc])
    KA = []
    callsA = []

    def fnA(j, time, data):
        callsA.append((time, [d.copy() for d in data]))
        k = B.vararray('K%d' % j, n)
        KA.append(k)
        return [k.copy()]
    callsB = []

    def fnB(j, time, data):
        callsB.append((time, [d.copy() for d in data]))
        if j < len(KA):
            return [M(KA[j]) * ksc]
        return [B.vararray('KB%d' % j, n)]
    sA, dA, mA, meA = stubs.make(B, integ, n=n, fn=fnA)
    sB, dB, mB, meB = stubs.make(B, integ, n=n, fn=fnB)
    y0 = B.vararray('y', n)
    if integ in ('implicit', 'trapezoidal', 'gear'):
        B.assume(sum((abs(v) for v in y0), B.const(0)) > 0)
    t0 = B.var('t0')
    dt = B.pos('dt')
    fA = B.fd.field.fdata(mA, meA, [y0.copy()], t=t0)
    fB = B.fd.field.fdata(mB, meB, [M(y0)], t=t0 * tsc)
    nsteps = 2 if integ == 'gear' else 1
    for st in range(nsteps):
        sA.step(fA, dt)
        sB.step(fB, dt * tsc)
    B.ob('same-number-of-stage-evaluations', 'true', B.boolean(len(callsA) == len(callsB)), meta={'A': len(callsA), 'B': len(callsB)})
    for j in range(min(len(callsA), len(callsB))):
        ta, da = callsA[j]
        tb, db = callsB[j]
        B.ob('stage%d-time-transformed' % j, 'eq', tb, ta * tsc)
        B.eq_arrays('stage%d-evaluated-at-transformed-state' % j, db[0], M(da[0]))
    B.eq_arrays('result_B=M.result_A', fB.data[0], M(fA.data[0]))
    B.ob('time_B=scale*time_A', 'eq', fB.time, fA.time * tsc)


def _integrator_implicit(cfg, B, n, M, Minv, tsc, ksc, scl=()):
    """implicit family: the finite-difference Jacobian evaluates the right-hand side at perturbed states in an order that is
    not transformed, so the two right-hand sides are tied as functions: R_B(t, y) = ksc * M(R_A(t/tsc, Minv y)), with R_A a
    state- and time-dependent parametrised family (replayable).  The linear systems of the two runs are compared entry by
    entry (matrix and right-hand side transformed); that their solutions are then transformed too is linear algebra
    (regular matrix), used as an assumption for the final state comparison."""
    integ = cfg['integrator']
    clause = cfg['clause']
    al = [B.var('al%d' % i) for i in range(n)]
    be = [B.var('be%d' % i, -1.0, 1.0) for i in range(n)]
    ga, de = B.var('ga', -1.0, 1.0), B.var('de', -1.0, 1.0)

    def RA(time, y):
        return B.array([al[i] + be[i] * y[i] + ga * y[(i - 1) % n] * y[i] + de * time for i in range(n)])

    def fnA(j, time, data):
        return [RA(time, data[0])]

    def fnB(j, time, data):
        return [M(RA(time / tsc, Minv(data[0]))) * ksc]
    sA, dA, mA, meA = stubs.make(B, integ, n=n, fn=fnA)
    sB, dB, mB, meB = stubs.make(B, integ, n=n, fn=fnB)
    y0 = B.vararray('y', n)
    B.assume(sum((abs(v) for v in y0), B.const(0)) > 0)
    t0 = B.var('t0')
    dt = B.pos('dt')
    fA = B.fd.field.fdata(mA, meA, [y0.copy()], t=t0)
    fB = B.fd.field.fdata(mB, meB, [M(y0)], t=t0 * tsc)
    nsteps = 2 if integ == 'gear' else 1
    pi = (lambda i: n - 1 - i) if clause == 'reflection' else (lambda i: i)
    sig = M(B.array([B.const(1)] * n))[0]          # -1 (reflection of an odd variable) or the scale factor s
    tie = []
    recA, recB = [], []
    for solver, rec in ((sA, recA), (sB, recB)):
        real = solver.solve_implicit

        def spy(field, dtloc, invertion=None, rec=rec, real=real, **kw):
            def inv(mat, rhs):
                x = B.np.linalg.solve(mat, rhs)
                rec.append((mat.copy(), rhs.copy(), x.copy()))
                return x
            return real(field, dtloc, invertion=inv, **kw)
        solver.solve_implicit = spy
    for st in range(nsteps):
        del recA[:]
        del recB[:]
        sA.step(fA, dt)
        sB.step(fB, dt * tsc)
        B.ob('step%d:one-linear-solve-each' % st, 'true', B.boolean(len(recA) == 1 and len(recB) == 1))
        if len(recA) != 1 or len(recB) != 1:
            return
        (MA, bA, xA), (MB, bB, xB) = recA[0], recB[0]
        for i in range(n):
            for j in range(n):
                B.ob('step%d:system-matrix-transformed[%d][%d]' % (st, i, j), 'eq', MB[i][j], MA[pi(i)][pi(j)] / tsc, assume=list(tie),
                     method='sweep', scales=scl)
            B.ob('step%d:system-rhs-transformed[%d]' % (st, i), 'eq', bB[i], sig * bA[pi(i)] / tsc, assume=list(tie), method='sweep', scales=scl)
        # solutions of two regular systems related by the same transformation are related by it
        tie = tie + [xB[i] == sig * xA[pi(i)] for i in range(n)]
        B.eq_arrays('step%d:result_B=M.result_A' % st, fB.data[0], M(fA.data[0]), assume=list(tie), method='sweep', scales=scl)
        B.ob('step%d:time_B=scale*time_A' % st, 'eq', fB.time, fA.time * tsc)


def _driver(cfg, B):
    """solve() of the real driver on a stub problem and on its transformed twin: the right-hand side of B returns M.K_j when it is
    evaluated at M.(j-th evaluation point of A) (checked), its time step is the scaled time step of A, save times and stop criteria are
    scaled; the snapshots and the final state of B must be the transformed ones of A, at the transformed times"""
    n = 2
    integ, clause = cfg['integrator'], cfg['clause']
    S, K = cfg['S'], cfg['K']
    if clause == 'reflection':
        tsc = B.const(1)
        sig = -1

        def M(v):
            return B.array([sig * v[n - 1 - i] for i in range(n)])
        ksc = B.const(1)
    else:
        s = B.pos('sq', 0.5, 2.0)
        tsc = B.pos('st', 0.001, 1000.0)

        def M(v):
            return B.array([s * v[i] for i in range(n)])
        ksc = 1 / tsc
    KA, callsA, callsB, dtsA = [], [], [], []

    def fnA(j, time, data):
        callsA.append((time, [d.copy() for d in data]))
        k = B.vararray('K%d' % j, n)
        KA.append(k)
        return [k.copy()]

    def fnB(j, time, data):
        callsB.append((time, [d.copy() for d in data]))
        if j < len(KA):
            return [M(KA[j]) * ksc]
        return [B.vararray('KB%d' % j, n)]
    sA, dA, mA, meA = stubs.make(B, integ, n=n, fn=fnA)
    sB, dB, mB, meB = stubs.make(B, integ, n=n, fn=fnB)

    def tsA(f, cond):
        d = B.pos('dt%d' % len(dtsA), 0.05, 1.0)
        dtsA.append(d)
        return B.array([d])
    nB = [0]

    def tsB(f, cond):
        k = nB[0]
        nB[0] += 1
        return B.array([(dtsA[k] if k < len(dtsA) else B.pos('dtB%d' % k, 0.05, 1.0)) * tsc])
    dA.calc_timestep = tsA
    dB.calc_timestep = tsB
    y0 = B.vararray('y', n)
    t0 = B.var('t0', -1.0, 1.0)
    ts = [B.var('s%d' % i, -1.0, 3.0) for i in range(S)]
    for i in range(S - 1):
        B.assume(ts[i] < ts[i + 1])
    rA = sA.solve(B.fd.field.fdata(mA, meA, [y0.copy()], t=t0), B.const(1), list(ts), stop={'maxit': K})
    rB = sB.solve(B.fd.field.fdata(mB, meB, [M(y0)], t=t0 * tsc), B.const(1), [x * tsc for x in ts], stop={'maxit': K})
    B.ob('same-number-of-evaluations', 'true', B.boolean(len(callsA) == len(callsB)), meta={'A': len(callsA), 'B': len(callsB)})
    B.ob('same-number-of-iterations', 'true', B.boolean(sA.nit() == sB.nit()))
    B.ob('same-number-of-results', 'true', B.boolean(len(rA) == len(rB)), meta={'A': len(rA), 'B': len(rB)})
    for j in range(min(len(callsA), len(callsB))):
        B.ob('evaluation%d-time-transformed' % j, 'eq', callsB[j][0], callsA[j][0] * tsc)
        B.eq_arrays('evaluation%d-at-transformed-state' % j, callsB[j][1][0], M(callsA[j][1][0]))
    for j in range(min(len(rA), len(rB))):
        B.eq_arrays('result%d_B=M.result_A' % j, rB[j].data[0], M(rA[j].data[0]))
        B.ob('result%d:time_B=scale*time_A' % j, 'eq', rB[j].time, rA[j].time * tsc)
    B.eq_arrays('final_B=M.final_A', sB.Qn.data[0], M(sA.Qn.data[0]))
    B.ob('final:time_B=scale*time_A', 'eq', sB.Qn.time, sA.Qn.time * tsc)
