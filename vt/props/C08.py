"""C08 - solve is pure: repeatable, unaffected by saving, monitoring or restart."""
from fractions import Fraction
from . import stubs

ID = 'C08'
EXPLORE = True
FUNCTIONS = ['flowdyn.integration.timemodel.{solve,restart,_solve,_check_end,_parse_monitors,_remove_monitor_output,mon_residual,mon_dataavg,add_res}',
             'flowdyn.integration._coreiterative.{reset,nit,totnit}', 'flowdyn.integration.*.step (all classes incl. gear and its stored increment)',
             'flowdyn.integration.implicitmodel.{calc_jacobian,solve_implicit}', 'flowdyn.monitors.monitor.{__init__,append}',
             'flowdyn.field.fdata.{copy,set,average,phydata}', 'flowdyn.field.fieldlist']
BOUNDS = ('relational path exploration of call histories on ONE stub problem whose right-hand side and time step are state- and '
          'time-dependent with symbolic coefficients (R_i = al_i + be_i*y_i + ga*y_{i-1}*y_i + de*t, dt = tau0 + tau1*y_0^2 > 0; replayable), '
          '2 cells, symbolic initial field and start time: (a) a solve after another solve on the same object vs a fresh object, '
          '(b) with vs without 1-2 extra save times (anywhere), (c) with vs without monitors (residual, data_average; frequencies 1,2,3), '
          '(d) solve(N) + restart(M) from the returned field vs solve(N+M), N,M in {1,2}; all integrator classes (quick: one per family)')
OUTSIDE = ('histories longer than N+M<=4 iterations; right-hand sides outside the parametrised family (the driver only sees the values '
           'returned); bit-level equality is argued from the two histories producing identical terms / solver-equal values')
ASSUMPTIONS = ['numpy.linalg.solve exact (implicit family)']
EXPLANATION = 'Final data, time and cumulative iteration count of two histories are asserted equal; monitor records are compared with the trajectory.'

FAMILIES_QUICK = ['explicit', 'rk3ssp', 'lsrk25bb', 'implicit', 'gear']
ALL = ['explicit', 'rk2', 'rk2_heun', 'rk3_heun', 'rk3ssp', 'rk4', 'lsrk25bb', 'lsrk26bb', 'lsrk4', 'implicit', 'trapezoidal', 'gear']


def configs(tier):
    out = _configs(tier)
    for c in out:
        c['guided_min_size'] = 5
        if c['integrator'] in ('implicit', 'trapezoidal', 'gear'):
            c.setdefault('feas_timeout_ms', 1500)
            c['timeout_ms'] = 4000 if tier == 'quick' else 120000
            c.setdefault('budget_s', 280 if tier == 'quick' else 3000)
    return out


def _configs(tier):
    out = []
    integs = FAMILIES_QUICK if tier == 'quick' else ALL
    for integ in integs:
        out.append({'history': 'repeat', 'integrator': integ, 'N': 2, 'feas_timeout_ms': 1500, 'budget_s': 280 if tier == 'quick' else 3000})
        out.append({'history': 'repeat', 'integrator': integ, 'N': 2, 'linear': True, 'feas_timeout_ms': 1500, 'budget_s': 280 if tier == 'quick' else 3000})
        out.append({'history': 'saves', 'integrator': integ, 'N': 2, 'S': 1, 'feas_timeout_ms': 1500, 'budget_s': 280 if tier == 'quick' else 3000})
        if tier != 'quick' or integ in ('explicit', 'gear'):
            out.append({'history': 'saves', 'integrator': integ, 'N': 2, 'S': 2})
        for freq in ([2] if tier == 'quick' else [1, 2, 3]):
            out.append({'history': 'monitors', 'integrator': integ, 'N': 3, 'freq': freq})
        for N, M in ([(1, 1), (2, 1)] if tier == 'quick' else [(1, 1), (2, 1), (1, 2), (2, 2)]):
            out.append({'history': 'restart', 'integrator': integ, 'N': N, 'M': M})
    return out


class Problem:
    """the shared stub problem (same coefficients for every history)"""

    def __init__(self, B, n=2, linear=False):
        self.B = B
        self.n = n
        self.linear = linear        # linear right-hand side and model.islinear = 1 (the integrators then cache their Jacobian)
        self.al = [B.var('al%d' % i) for i in range(n)]
        self.be = [B.var('be%d' % i, -1.0, 1.0) for i in range(n)]
        self.ga = B.var('ga', -1.0, 1.0) if not linear else B.const(0)
        self.de = B.var('de', -1.0, 1.0)
        self.tau0 = B.pos('tau0', 0.1, 0.5)
        self.tau1 = B.pos('tau1', 0.0, 0.5)
        self.y0 = B.vararray('y', n)
        self.t0 = B.var('t0', -1.0, 1.0)
        self.vol = B.array([B.const(1), B.const(2)][:n])

    def rhs(self, j, time, data):
        n = self.n
        y = data[0]
        return [self.B.array([self.al[i] + self.be[i] * y[i] + self.ga * y[(i - 1) % n] * y[i] + self.de * time for i in range(n)])]

    def make(self, integ):
        B = self.B
        model = stubs.Model(1, 1 if self.linear else 0)
        mesh = stubs.Mesh(B, self.n, vol=self.vol)
        disc = stubs.RHSStub(B, self.n, 1, fn=self.rhs)
        disc.model, disc.mesh = model, mesh          # what a real discretisation object exposes
        prob = self

        def calc_timestep(f, cond):
            d = cond * (prob.tau0 + (prob.tau1 * f.data[0][0] * f.data[0][0] if not prob.linear else 0))
            disc.dts.append(d)
            return B.array([d])
        disc.calc_timestep = calc_timestep
        solver = getattr(B.fd.integration, integ)(mesh, disc)
        return solver, model, mesh

    def field(self, model, mesh):
        return self.B.fd.field.fdata(model, mesh, [self.y0.copy()], t=self.t0)


def _same(B, name, fa, sa, fb, sb, n):
    B.eq_arrays(name + ':data', fa.data[0], fb.data[0])
    B.ob(name + ':time', 'eq', fa.time, fb.time)
    B.ob(name + ':totnit', 'true', B.boolean(sa.totnit() == sb.totnit()), meta={'a': sa.totnit(), 'b': sb.totnit()})


def harness(cfg, B):
    P_ = Problem(B, linear=bool(cfg.get('linear')))
    integ = cfg['integrator']
    h = cfg['history']
    N = cfg['N']
    # reference: one solve of N iterations on a fresh object, with the trajectory recorded
    sref, model, mesh = P_.make(integ)
    traj = []
    real_step = sref.step

    def step(f, dt):
        r = real_step(f, dt)
        traj.append((f.time, [d.copy() for d in f.data]))
        return r
    sref.step = step
    stop_ref = {'maxit': N if h != 'restart' else N + cfg['M']}
    if h == 'saves':
        # both runs carry the same explicit stop criteria (with save times the driver would otherwise add tottime=tsave[-1])
        T = B.var('T', -1.0, 4.0)
        stop_ref['tottime'] = T
    rref = sref.solve(P_.field(model, mesh), B.const(1), stop=dict(stop_ref))
    fref = sref.Qn
    if h == 'repeat':
        s2, m2, me2 = P_.make(integ)
        s2.solve(P_.field(m2, me2), B.const(Fraction(1, 2)), stop={'maxit': 1})        # another CFL number: leaves whatever a previous call leaves
        r2 = s2.solve(P_.field(m2, me2), B.const(1), stop={'maxit': N})
        _same(B, 'second-solve-on-same-object=fresh-solve', r2[-1], s2, fref, sref, P_.n)
        r3 = s2.solve(P_.field(m2, me2), B.const(1), stop={'maxit': N})
        _same(B, 'third-solve=second-solve', r3[-1], s2, r2[-1], sref, P_.n)
    elif h == 'saves':
        S = cfg['S']
        ts = [B.var('s%d' % i, -1.0, 3.0) for i in range(S)]
        for i in range(S - 1):
            B.assume(ts[i] < ts[i + 1])
        s2, m2, me2 = P_.make(integ)
        r2 = s2.solve(P_.field(m2, me2), B.const(1), list(ts), stop=dict(stop_ref))
        _same(B, 'trajectory-unchanged-by-snapshots', s2.Qn, s2, fref, sref, P_.n)
    elif h == 'monitors':
        k = cfg['freq']
        for mtype in ('data_average', 'residual'):
            s2, m2, me2 = P_.make(integ)
            mon = {'m': {'type': mtype, 'frequency': k}}
            if mtype == 'data_average':
                mon['m']['data'] = 'q'
            r2 = s2.solve(P_.field(m2, me2), B.const(1), stop={'maxit': N}, monitors=mon)
            _same(B, 'trajectory-unchanged-by-monitor:' + mtype, r2[-1], s2, fref, sref, P_.n)
            out = mon['m'].get('output')
            B.ob('monitor-output-present:' + mtype, 'true', B.boolean(out is not None))
            if out is None:
                continue
            want = [it for it in range(0, N + 1) if it % k == 0]
            B.ob('monitor-iterations:' + mtype, 'true', B.boolean(list(out._it) == want), meta={'it': list(out._it), 'expected': want})
            if list(out._it) != want:
                continue
            states = [(P_.t0, [P_.y0])] + traj
            for idx, it in enumerate(want):
                tt, dd = states[it]
                B.ob('monitor-time[%d]:%s' % (it, mtype), 'eq', out._time[idx], tt)
                if mtype == 'data_average':
                    ref = (dd[0][0] * P_.vol[0] + dd[0][1] * P_.vol[1]) / (P_.vol[0] + P_.vol[1])
                else:
                    res = P_.rhs(0, tt, dd)
                    ref = sum((x * x for x in res[0]), B.const(0))      # the stub's all_L2average
                B.ob('monitor-value[%d]:%s' % (it, mtype), 'eq', out._value[idx], ref)
    elif h == 'restart':
        M = cfg['M']
        s2, m2, me2 = P_.make(integ)
        # the same monitor dictionary is handed to solve and to restart: its record continues across the restart
        k = 2
        mon = {'avg': {'type': 'data_average', 'frequency': k, 'data': 'q'}, 'res': {'type': 'residual', 'frequency': k}}
        r2 = s2.solve(P_.field(m2, me2), B.const(1), stop={'maxit': N}, monitors=mon)
        r3 = s2.restart(r2[-1], B.const(1), stop={'maxit': M}, monitors=mon)
        _same(B, 'solve(N)+restart(M)=solve(N+M)', r3[-1], s2, fref, sref, P_.n)
        if N % k != 0:      # (when N is a multiple of k the restart records iteration N a second time: not asserted either way)
            want = [it for it in range(0, N + M + 1) if it % k == 0]
            for nm in ('avg', 'res'):
                out = mon[nm].get('output')
                got = list(out._it) if out is not None else None
                B.ob('monitor-iterations-across-restart:' + nm, 'true', B.boolean(got == want), meta={'it': got, 'expected': want})
        B.ob('restart-iteration-count-is-cumulative', 'true', B.boolean(s2.totnit() == N + M), meta={'totnit': s2.totnit()})
        B.ob('returned-fields-carry-the-cumulative-count', 'true', B.boolean(r2[-1].it == N and r3[-1].it == N + M),
             meta={'it_after_solve': r2[-1].it, 'it_after_restart': r3[-1].it})
        r4 = s2.restart(r3[-1], B.const(1), stop={'maxit': 1})
        B.ob('second-restart-count', 'true', B.boolean(s2.totnit() == N + M + 1 and r4[-1].it == N + M + 1), meta={'totnit': s2.totnit(), 'it': r4[-1].it})
