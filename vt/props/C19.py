"""C19 - source terms are added exactly once, to their own equation."""
from . import common as cm

ID = 'C19'
FUNCTIONS = ['flowdyn.modeldisc.base.rhs', 'flowdyn.modeldisc.fvm1d.add_source', 'flowdyn.modeldisc.fvm2dcart.add_source', 'flowdyn.modelphy.euler.euler2d.__init__', 'flowdyn.modelphy.euler.euler.__init__',
             'flowdyn.modelphy.euler.euler1d.__init__', 'flowdyn.modelphy.shallowwater.shallowwater1d.__init__',
             'flowdyn.modelphy.euler.nozzle.{__init__,initdisc,src_mass,src_mom,src_energy}']
BOUNDS = ('n=3 cells, arbitrary monotone faces symbolic, all admissible cell data symbolic; every subset of equations carrying a '
          'source (None elsewhere); sources S_i(x,Q) = sigma_i*x + tau_i*Q[(i+1) mod neq] + omega_i with symbolic coefficients '
          '(state and position dependent, replayable); section law A(x) = a0 + a1 x + a2 x^2 with symbolic coefficients, positive '
          'at the faces and centres (plus the constant law); fluxes hlle/hllc/rusanov, reconstruction extrapol1 and muscl(minmod); 2D operator (euler2d, 3x2 periodic grid, centered and hlle): '
          'every subset of the three equations, sources linear in x, y and Q, the momentum source a 2-vector')
OUTSIDE = 'source functions outside the parametrised family (the operator only adds what the callable returns); float round-off'
ASSUMPTIONS = ['gamma = 2 and 7/5']
EXPLANATION = 'Two symbolic runs of the real operator (with / without sources) and the closed-form nozzle terms as oracle.'


def configs(tier):
    out = []
    for model, neq in (('euler1d', 3), ('shallowwater', 2), ('nozzle', 3)):
        for mask in range(0, 2 ** neq):
            for num in (['extrapol1'] if tier == 'quick' else ['extrapol1', 'muscl:minmod']):
                for g in (['7/5'] if tier == 'quick' else ['2', '7/5']):
                    if model == 'shallowwater' and g != '7/5':
                        continue
                    c = {'model': model, 'mask': mask, 'num': num, 'gamma': g}
                    if model == 'nozzle':
                        for law in ('quadratic', 'constant'):
                            out.append(dict(c, law=law))
                    else:
                        out.append(c)
    # the 2D operator has its own add_source
    for mask in range(0, 8):
        out.append({'model': 'euler2d', 'mask': mask, 'nx': 3, 'ny': 2, 'gamma': '7/5', 'flux': 'hlle' if mask % 2 else 'centered'})
    return out


def _twod(cfg, B):
    """fvm2dcart.add_source: operator with sources = operator without + S_i(centres, Q) on equation i (the momentum source is a
    2-vector per cell); sources S(x, y, Q) with symbolic coefficients"""
    np = B.np
    mask = cfg['mask']
    calls = []
    coefs = {}

    def mksrc(i):
        sg, ta, om, nu = B.var('sig%d' % i), B.var('tau%d' % i), B.var('om%d' % i), B.var('nu%d' % i)
        coefs[i] = (sg, ta, om, nu)

        def src(x, q):
            calls.append((i, x, [d.copy() for d in q]))
            sc = sg * x[0] + nu * x[1] + ta * q[2 if i == 0 else 0] + om          # q[0] or q[2]: one value per cell
            return sc if i != 1 else B.np.stack([sc, nu * x[0] - sg * x[1] + om * q[0]])
        return src
    srcs = [mksrc(i) if (mask >> i) & 1 else None for i in range(3)]
    try:
        d = cm.build2d(B, cfg, source=list(srcs) if mask else None)
        d0 = cm.build2d(B, cfg)
        cons = [c.copy() for c in d['cons']]
        fdm = B.fd
        d['rhs'].rhs(fdm.field.fdata(d['model'], d['mesh'], [2 * c for c in d0['cons']]))       # another (admissible) field first, same time
        del calls[:]
        R = [r.copy() for r in d['rhs'].rhs(fdm.field.fdata(d['model'], d['mesh'], [c.copy() for c in cons]))]
        R0 = [r.copy() for r in d0['rhs'].rhs(fdm.field.fdata(d0['model'], d0['mesh'], [c.copy() for c in cons]))]
    except Exception as e:
        B.ob('constructs-and-evaluates', 'true', B.boolean(False), meta={'exception': '%s: %s' % (type(e).__name__, str(e)[:200])})
        return
    B.ob('constructs-and-evaluates', 'true', B.boolean(True))
    xx, yy = d['mesh'].centers()
    for i in range(3):
        exp = R0[i]
        if (mask >> i) & 1:
            sg, ta, om, nu = coefs[i]
            sc = sg * xx + nu * yy + ta * cons[2 if i == 0 else 0] + om
            if i != 1:
                exp = exp + sc
            else:
                exp = [exp[0] + sc, exp[1] + (nu * xx - sg * yy + om * cons[0])]
        if i != 1:
            B.eq_arrays('2d:operator=plain+sources:eq%d' % i, R[i], exp)
        else:
            B.eq_arrays('2d:operator=plain+sources:eq1x', R[1][0], exp[0])
            B.eq_arrays('2d:operator=plain+sources:eq1y', R[1][1], exp[1])
    for i in range(3):
        cnt = sum(1 for c in calls if c[0] == i)
        B.ob('2d:source%d-called-once' % i, 'true', B.boolean(cnt == (1 if (mask >> i) & 1 else 0)), meta={'calls': cnt})
    for (i, x, q) in calls:
        B.eq_arrays('2d:source%d-gets-centres-x' % i, x[0], xx)
        B.eq_arrays('2d:source%d-gets-centres-y' % i, x[1], yy)
        B.eq_arrays('2d:source%d-gets-conservative-data[0]' % i, q[0], cons[0])
        B.eq_arrays('2d:source%d-gets-conservative-data[1x]' % i, q[1][0], cons[1][0])
        B.eq_arrays('2d:source%d-gets-conservative-data[1y]' % i, q[1][1], cons[1][1])
        B.eq_arrays('2d:source%d-gets-conservative-data[2]' % i, q[2], cons[2])


def harness(cfg, B):
    if cfg['model'] == 'euler2d':
        return _twod(cfg, B)
    fd = B.fd
    np = B.np
    n = 3
    m = cfg['model']
    neq = 2 if m == 'shallowwater' else 3
    mask = cfg['mask']
    xf = cm.mono_faces(B, n)
    mesh = cm.mesh_with_faces(B, fd, xf)
    calls = []
    coefs = {}

    def mksrc(i):
        sg, ta, om = B.var('sig%d' % i), B.var('tau%d' % i), B.var('om%d' % i)
        coefs[i] = (sg, ta, om)

        def src(x, q):
            calls.append((i, x, [d.copy() for d in q]))
            return sg * x + ta * q[(i + 1) % neq] + om
        return src
    srcs = [mksrc(i) if (mask >> i) & 1 else None for i in range(neq)]
    g = B.const(cfg['gamma'])
    num = cm.make_num(B, fd, cfg['num'])
    num0 = cm.make_num(B, fd, cfg['num'])
    try:
        if m == 'euler1d':
            model = fd.euler.euler1d(gamma=g, source=list(srcs) if mask else None)
            model0 = fd.euler.euler1d(gamma=g)
            flux = 'hllc'
        elif m == 'shallowwater':
            model = fd.shallowwater.shallowwater1d(g=B.const('981/100'), source=list(srcs) if mask else None)
            model0 = fd.shallowwater.shallowwater1d(g=B.const('981/100'))
            flux = 'rusanov'
        else:
            if cfg['law'] == 'quadratic':
                a0, a1, a2 = B.pos('A0', 1.0, 2.0), B.var('A1', -0.2, 0.2), B.var('A2', -0.1, 0.1)
                law = lambda x: a0 + a1 * x + a2 * x * x
            else:
                a0 = B.pos('A0', 1.0, 2.0)
                law = lambda x: a0 + 0 * x
            for x in list(xf) + list(mesh.centers()):
                B.assume(law(x) > 0)
            model = fd.euler.nozzle(law, gamma=g, source=list(srcs) if mask else None)
            model0 = fd.euler.euler1d(gamma=g)
            flux = 'hlle'
        rhs = fd.modeldisc.fvm(model, mesh, num, numflux=flux, bcL={'type': 'per'}, bcR={'type': 'per'})
        rhs0 = fd.modeldisc.fvm(model0, mesh, num0, numflux=flux, bcL={'type': 'per'}, bcR={'type': 'per'})
        prim, cons = cm.make_state(B, 'euler1d' if m != 'shallowwater' else m, model0, n)
        cons = [c.copy() for c in cons]
        # the operator is evaluated first on ANOTHER field at the same time (what integrator stages, Jacobians and monitors do): the
        # sources of the evaluation under test must be those of its own field
        _, decoy = cm.make_state(B, 'euler1d' if m != 'shallowwater' else m, model0, n, tag='d')
        rhs.rhs(fd.field.fdata(model, mesh, [c.copy() for c in decoy]))
        del calls[:]
        R = [r.copy() for r in rhs.rhs(fd.field.fdata(model, mesh, cons))]
        R0 = [r.copy() for r in rhs0.rhs(fd.field.fdata(model0, mesh, cons))]
    except Exception as e:
        B.ob('constructs-and-evaluates', 'true', B.boolean(False), meta={'exception': '%s: %s' % (type(e).__name__, str(e)[:200])})
        return
    B.ob('constructs-and-evaluates', 'true', B.boolean(True))
    xc = mesh.centers()
    # expected built-in nozzle terms
    geo = [0 * xc for _ in range(neq)]
    if m == 'nozzle':
        rho, u, p = prim
        gt = (law(xf[1:n + 1]) - law(xf[0:n])) / (xf[1:n + 1] - xf[0:n]) / law(xc)
        htot = g / (g - 1) * p / rho + u * u / 2
        geo = [-gt * rho * u, -gt * rho * u * u, -gt * rho * u * htot]
        if cfg['law'] == 'constant':
            for i in range(neq):
                B.eq_arrays('constant-section-zero-geometric-source:eq%d' % i, R[i], R0[i] + (coefs[i][0] * xc + coefs[i][1] * cons[(i + 1) % neq] + coefs[i][2] if (mask >> i) & 1 else 0 * xc))
    for i in range(neq):
        exp = R0[i] + geo[i]
        if (mask >> i) & 1:
            sg, ta, om = coefs[i]
            exp = exp + (sg * xc + ta * cons[(i + 1) % neq] + om)
        B.eq_arrays('operator=plain+sources:eq%d' % i, R[i], exp)
    # each source is called exactly once per evaluation, with the cell centres and the conservative data
    for i in range(neq):
        cnt = sum(1 for c in calls if c[0] == i)
        B.ob('source%d-called-once' % i, 'true', B.boolean(cnt == (1 if (mask >> i) & 1 else 0)), meta={'calls': cnt})
    for (i, x, q) in calls:
        B.eq_arrays('source%d-gets-centres' % i, x, xc)
        for k in range(neq):
            B.eq_arrays('source%d-gets-conservative-data[%d]' % (i, k), q[k], cons[k])
