"""C11 - reconstructions are exact for linear data; linear schemes match the kappa stencil."""
from fractions import Fraction
from . import common as cm

ID = 'C11'
FUNCTIONS = ['flowdyn.modeldisc.fvm1d.{calc_grad,calc_bc_grad,interp_face,calc_bc,calc_flux,calc_res}',
             'flowdyn.xnum.{extrapol1,extrapol2,extrapolk,extrapol3,centered,fromm,quick,muscl}.interp_face',
             'flowdyn.xnum.{minmod,vanalbada,vanleer,superbee}', 'flowdyn.modelphy.convection.model.numflux',
             'flowdyn.modeldisc.fvm2dcart.{calc_grad,calc_bc_grad,interp_face,calc_bc}',
             'flowdyn.xnum.{extrapol2d1,extrapol2dk}.interp_face']
BOUNDS = ('(1) n=5 cells, arbitrary monotone faces symbolic, data alpha+beta*xc with alpha,beta symbolic; (2) uniform periodic '
          'mesh n=6 (so that the 4-point stencil does not overlap itself; thorough also n=5,7), h and the speed a symbolic (either '
          'sign), ALL data symbolic (not only impulses), kappa symbolic for extrapolk; (3) 2D grids 4x3 and 3x4 periodic, '
          'kappa symbolic, all data symbolic')
OUTSIDE = ('float round-off; for vanalbada/vanleer exactness on linear data holds up to their 1e-20 regularisation and is asserted '
           'with that tolerance for |beta| >= 1e-8; kprec of extrapol3/quick/fromm is compared with its nominal value to 2^-53')
ASSUMPTIONS = ['stencil locality: larger meshes repeat the same interior/seam stencils']
EXPLANATION = 'Oracle: the kappa-scheme formulas written independently in the harness.'

NOMINAL = {'extrapol2': Fraction(-1), 'fromm': Fraction(0), 'quick': Fraction(1, 2), 'extrapol3': Fraction(1, 3), 'centered': Fraction(1)}


def configs(tier):
    out = []
    for num in cm.NUMS_ALL:
        out.append({'part': 'linear', 'num': num, 'n': 5})
    ns = [6] if tier == 'quick' else [5, 6, 7]
    for num in cm.NUMS_LINEAR:
        for n in ns:
            for sp in ('pos', 'neg'):
                out.append({'part': 'stencil', 'num': num, 'n': n, 'speed': sp})
    for nx, ny in ([(4, 3)] if tier == 'quick' else [(4, 3), (3, 4), (4, 4)]):
        out.append({'part': '2d', 'num': 'extrapol2dk', 'nx': nx, 'ny': ny})
        out.append({'part': '2d', 'num': 'extrapol2d1', 'nx': nx, 'ny': ny})
    return out


def harness(cfg, B):
    return {'linear': _linear, 'stencil': _stencil, '2d': _twod}[cfg['part']](cfg, B)


def _linear(cfg, B):
    fd = B.fd
    n = cfg['n']
    xf = cm.mono_faces(B, n)
    mesh = cm.mesh_with_faces(B, fd, xf)
    num = cm.make_num(B, fd, cfg['num'])
    model = fd.convection.model(B.var('aconv'))
    rhs = fd.modeldisc.fvm(model, mesh, num)
    alpha, beta = B.var('alpha'), B.var('beta')
    xc = mesh.centers()
    smooth = cfg['num'] in ('muscl:vanalbada', 'muscl:vanleer')
    if smooth:
        B.assume(beta * beta >= B.const(Fraction(1, 10 ** 16)))
    lin = alpha + beta * xc
    f = fd.field.fdata(model, mesh, [lin])
    rhs.rhs(f)
    pL, pR = rhs.pL[0], rhs.pR[0]
    # exactness away from the boundaries (boundary gradients are not those of the linear profile)
    if cfg['num'] == 'extrapol1':
        pass
    else:
        for fc in range(2, n):
            _exact(B, 'linear:pL[%d]' % fc, pL[fc], alpha + beta * xf[fc], beta, xf[fc] - xc[fc - 1], smooth)
        for fc in range(1, n - 1):
            _exact(B, 'linear:pR[%d]' % fc, pR[fc], alpha + beta * xf[fc], beta, xf[fc] - xc[fc], smooth)
    # the periodic closure: a profile that is linear THROUGH the seam (cells 0..k-1 carry the abscissa x+L, the jump sits between
    # cells k-1 and k in mid-domain); every face state built only from cells away from the jump must be exact, the wrap gradient
    # with the centre-to-centre distance across the seam included
    if cfg['num'] != 'extrapol1':
        k = 3
        Lm = xf[n] - xf[0]
        saw = B.array([alpha + beta * (xc[i] + (Lm if i < k else 0)) for i in range(n)])
        rhs.rhs(fd.field.fdata(model, mesh, [saw]))
        pL, pR = rhs.pL[0], rhs.pR[0]

        def xs(fc, side):          # abscissa of the face as seen from the cell on that side
            cell = (fc - 1) % n if side == 'L' else fc % n
            x = xf[fc] if not (side == 'L' and fc == 0) else xf[n]
            if side == 'R' and fc == n:
                x = xf[0]
            return x + (Lm if cell < k else 0), cell
        for fc in range(n + 1):
            for side, arr in (('L', pL), ('R', pR)):
                x, cell = xs(fc, side)
                if cell in (k - 1, k):          # cells whose stencil contains the jump
                    continue
                xcc = xc[cell] + (Lm if cell < k else 0)
                _exact(B, 'seam-linear:p%s[%d]' % (side, fc), arr[fc], alpha + beta * x, beta, x - xcc, smooth)
    # constants: every face, including the periodic closure
    const = alpha + 0 * xc
    rhs.rhs(fd.field.fdata(model, mesh, [const]))
    for fc in range(n + 1):
        B.ob('constant:pL[%d]' % fc, 'eq', rhs.pL[0][fc], alpha)
        B.ob('constant:pR[%d]' % fc, 'eq', rhs.pR[0][fc], alpha)
    if cfg['num'] == 'extrapol1':
        d = B.vararray('d', n)
        rhs.rhs(fd.field.fdata(model, mesh, [d]))
        for fc in range(1, n + 1):
            B.ob('extrapol1:pL[%d]=left-cell' % fc, 'eq', rhs.pL[0][fc], d[fc - 1])
        for fc in range(0, n):
            B.ob('extrapol1:pR[%d]=right-cell' % fc, 'eq', rhs.pR[0][fc], d[fc])
        B.ob('extrapol1:periodic-pL[0]', 'eq', rhs.pL[0][0], d[n - 1])
        B.ob('extrapol1:periodic-pR[n]', 'eq', rhs.pR[0][n], d[0])


def _exact(B, name, val, ref, beta, dist, smooth):
    if not smooth:
        B.ob(name, 'eq', val, ref)
    else:
        # slope used = beta*(1-r) with 0 <= r <= 1e-20*(1/(2 beta^2) + 1/(2|beta|))   (regularisation of the smooth limiters)
        e = B.const(Fraction(1, 10 ** 20))
        bound = abs(dist) * e * (1 + abs(beta)) / 2          # |beta|*|dist|*r  with the division by beta^2 cleared
        B.ob(name, 'le', abs(val - ref) * abs(beta), bound, tol=1e-9)


def _kappa_ref(B, u, i, n, kap, a, h, pos):
    w = lambda j: u[(i + j) % n]
    km, kp = (1 - kap) / 4, (1 + kap) / 4
    if pos:
        fp = w(0) + km * (w(0) - w(-1)) + kp * (w(1) - w(0))
        fm = w(-1) + km * (w(-1) - w(-2)) + kp * (w(0) - w(-1))
    else:
        fp = w(1) - km * (w(2) - w(1)) - kp * (w(1) - w(0))
        fm = w(0) - km * (w(1) - w(0)) - kp * (w(0) - w(-1))
    return -(a / h) * (fp - fm)


def _stencil(cfg, B):
    fd = B.fd
    n = cfg['n']
    Lh = B.pos('len', 0.5, 3.0)
    mesh = fd.mesh.unimesh(ncell=n, length=Lh)
    h = Lh / n
    num = cm.make_num(B, fd, cfg['num'])
    a = B.var('aconv')
    pos = cfg['speed'] == 'pos'
    B.assume(a > 0 if pos else a < 0)
    model = fd.convection.model(a)
    rhs = fd.modeldisc.fvm(model, mesh, num)
    u = B.vararray('u', n)
    R = rhs.rhs(fd.field.fdata(model, mesh, [u]))[0]
    name = cfg['num']
    if name == 'extrapol1':
        for i in range(n):
            ref = -(a / h) * (u[i] - u[(i - 1) % n]) if pos else -(a / h) * (u[(i + 1) % n] - u[i])
            B.ob('upwind-stencil[%d]' % i, 'eq', R[i], ref)
        return
    if name == 'extrapol2':
        kap = B.const(-1)
    else:
        kap = num.kprec
        if name in NOMINAL:
            B.ob('kprec-nominal', 'le', abs(kap - B.const(NOMINAL[name])), B.const(Fraction(1, 2 ** 53)), tol=0.0,
                 meta={'nominal': str(NOMINAL[name])})
    for i in range(n):
        B.ob('kappa-stencil[%d]' % i, 'eq', R[i], _kappa_ref(B, u, i, n, kap, a, h, pos))


def _twod(cfg, B):
    nx, ny = cfg['nx'], cfg['ny']
    d = cm.build2d(B, dict(cfg, flux='centered', kappa='sym'))
    rhs = d['rhs']
    rhs.rhs(d['field'])
    comps = [('rho', d['prim'][0], rhs.pL[0], rhs.pR[0]), ('u', d['prim'][1][0], rhs.pL[1][0], rhs.pR[1][0]),
             ('v', d['prim'][1][1], rhs.pL[1][1], rhs.pR[1][1]), ('p', d['prim'][2], rhs.pL[2], rhs.pR[2])]
    for cname, rho, pL, pR in comps:      # scalar and vector (momentum) branches of the 2D reconstruction
        _twod_comp(B, cfg, d, cname, rho, pL, pR, nx, ny)


def _twod_comp(B, cfg, d, cname, rho, pL, pR, nx, ny):
    first = cfg['num'] == 'extrapol2d1'
    kap = B.const(-1) if first else d['num'].kprec
    km, kp = (1 - kap) / 4, (1 + kap) / 4
    nxf = ny * (nx + 1)

    def c(i, j):
        return rho[(j % ny) * nx + (i % nx)]
    for j in range(ny):
        for i in range(nx + 1):      # i-face between cells (i-1,j) and (i,j), periodic
            f = j * (nx + 1) + i
            if first:
                L, R = c(i - 1, j), c(i, j)
            else:
                L = c(i - 1, j) + km * (c(i - 1, j) - c(i - 2, j)) + kp * (c(i, j) - c(i - 1, j))
                R = c(i, j) - km * (c(i + 1, j) - c(i, j)) - kp * (c(i, j) - c(i - 1, j))
            B.ob('%s:x-face-L[%d,%d]' % (cname, i, j), 'eq', pL[f], L)
            B.ob('%s:x-face-R[%d,%d]' % (cname, i, j), 'eq', pR[f], R)
    for j in range(ny + 1):
        for i in range(nx):          # j-face between cells (i,j-1) and (i,j), periodic
            f = nxf + j * nx + i
            if first:
                L, R = c(i, j - 1), c(i, j)
            else:
                L = c(i, j - 1) + km * (c(i, j - 1) - c(i, j - 2)) + kp * (c(i, j) - c(i, j - 1))
                R = c(i, j) - km * (c(i, j + 1) - c(i, j)) - kp * (c(i, j) - c(i, j - 1))
            B.ob('%s:y-face-L[%d,%d]' % (cname, i, j), 'eq', pL[f], L)
            B.ob('%s:y-face-R[%d,%d]' % (cname, i, j), 'eq', pR[f], R)
