"""C01 - discrete conservation of every conserved variable (1D and 2D)."""
from fractions import Fraction
from . import common as cm
from . import stubs

ID = 'C01'
FUNCTIONS = ['flowdyn.modeldisc.base.rhs', 'flowdyn.modeldisc.fvm1d.{cons2prim,calc_grad,calc_bc_grad,interp_face,calc_bc,calc_flux,calc_res}',
             'flowdyn.modeldisc.fvm2dcart.{calc_grad,calc_bc_grad,interp_face,calc_bc,calc_flux,calc_res}',
             'flowdyn.mesh.mesh1d.{vol,dx,calc_centers}', 'flowdyn.mesh2d.mesh2d.{vol,dx,dy,index_of_bc,bcface_orientation,normal_of_bc}',
             'flowdyn.xnum.{extrapol1,extrapol2,extrapolk,extrapol3,centered,fromm,quick,muscl}.interp_face',
             'flowdyn.xnum.{minmod,vanalbada,vanleer,superbee}', 'flowdyn.xnum.{extrapol2d1,extrapol2dk}.interp_face',
             'flowdyn.modelphy.*.numflux_* (all registered)', 'flowdyn.modelphy.*.bc_sym',
             'flowdyn.integration.*.step (all 15 classes)', 'flowdyn.integration.timemodel.add_res',
             'flowdyn.integration.implicitmodel.{calc_jacobian,solve_implicit}']
BOUNDS = ('operator level: n=4 cells (burgers n=3, path-explored), arbitrary monotone faces x_0<...<x_n symbolic, all cell data '
          'symbolic admissible; 2D grids 3x2 and 2x3 (thorough also 3x3) with lx,ly symbolic; every registered flux x every '
          'reconstruction/limiter x {periodic, sym}. Integrator level: one step of every integrator class on a stub RHS that '
          'is conservative by construction (sum vol*K = 0) but otherwise arbitrary, symbolic cell volumes, one global dt.')
OUTSIDE = ('accumulated round-off; dtlocal (the property restricts to one global step); larger meshes rely on the stencil '
           'locality of the schemes; for implicit integrators numpy.linalg.solve is assumed exact')
ASSUMPTIONS = ['the face-flux array held by the discretisation after rhs() is cut to fresh variables for the telescoping '
               'obligation (sound generalisation); periodic end faces and wall fluxes are decided on the uncut terms',
               'any number of steps: by induction from the one-step obligation (same code each step)']
EXPLANATION = ('Assertion: sum_i vol_i R_k,i = -(F_k[last]-F_k[0]); periodic: F_k[last] is F_k[0]; sym walls: mass and energy '
               '(height) boundary fluxes vanish; integrators: sum vol*Q is unchanged by step() for every conservative RHS.')

INTEGS = ['explicit', 'forwardeuler', 'rk2', 'rk2_heun', 'rk3_heun', 'rk3ssp', 'rk4', 'lsrk25bb', 'lsrk26bb', 'lsrk4',
          'implicit', 'backwardeuler', 'trapezoidal', 'cranknicolson', 'gear']


def configs(tier):
    out = []
    nums_q = ['extrapol1', 'extrapol3', 'extrapolk', 'muscl:vanalbada', 'muscl:minmod']
    for model, fluxes in cm.FLUXES.items():
        if model == 'nozzle':
            continue
        for fl in fluxes:
            nums = nums_q if tier == 'quick' else cm.NUMS_ALL
            for num in nums:
                c = {'level': 'operator', 'model': model, 'flux': fl, 'num': num, 'bc': 'per', 'n': 4}
                if model == 'burgers':
                    c['n'] = 3
                    c['explore'] = True
                    c['no_feasibility'] = True
                out.append(c)
                if model in ('shallowwater', 'euler1d') and (tier != 'quick' or num in ('extrapol1', 'extrapol3', 'muscl:minmod')):
                    out.append(dict(c, bc='sym'))
                if tier != 'quick' or num in ('extrapol3', 'muscl:minmod'):
                    out.append(dict(c, bc='open'))      # imposed-state / inlet-outlet boundaries: the integral changes by the boundary fluxes only
            if model == 'euler1d' and tier != 'quick':
                for g in ('7/5', '5/3'):
                    out.append({'level': 'operator', 'model': model, 'flux': fl, 'num': 'muscl:vanleer', 'bc': 'per', 'n': 4, 'gamma': g})
                    out.append({'level': 'operator', 'model': model, 'flux': fl, 'num': 'extrapol1', 'bc': 'sym', 'n': 4, 'gamma': g})
    grids = [(3, 2), (2, 3)] if tier == 'quick' else [(3, 2), (2, 3), (3, 3), (4, 2)]
    for nx, ny in grids:
        for fl in ('centered', 'hlle'):
            for num in ('extrapol2d1', 'extrapol2dk'):
                out.append({'level': 'operator2d', 'nx': nx, 'ny': ny, 'flux': fl, 'num': num, 'bc': 'per'})
                out.append({'level': 'operator2d', 'nx': nx, 'ny': ny, 'flux': fl, 'num': num, 'bc': 'sym'})
    # a square grid as well (per-side arrays of equal length on all four sides), closed box with one shared wall dictionary
    out.append({'level': 'operator2d', 'nx': 2, 'ny': 2, 'flux': 'centered', 'num': 'extrapol2d1', 'bc': 'sym'})
    IMPL = ('implicit', 'backwardeuler', 'trapezoidal', 'cranknicolson', 'gear')
    for integ in INTEGS:
        if integ in IMPL:
            # concrete distinct volumes keep the query linear (quick); symbolic volumes in the thorough tier
            out.append({'level': 'integrator', 'integrator': integ, 'n': 3, 'vol': ['1', '2', '1/2'], 'explore': True})
            if tier != 'quick':
                out.append({'level': 'integrator', 'integrator': integ, 'n': 3, 'timeout_ms': 600000, 'explore': True})
        else:
            out.append({'level': 'integrator', 'integrator': integ, 'n': 3})
    return out


def harness(cfg, B):
    lvl = cfg['level']
    if lvl == 'operator':
        return _operator(cfg, B)
    if lvl == 'operator2d':
        return _operator2d(cfg, B)
    return _integrator(cfg, B)


def _operator(cfg, B):
    d = cm.build1d(B, cfg)
    rhs, mesh, n, model = d['rhs'], d['mesh'], d['n'], d['model']
    R = rhs.rhs(d['field'])
    # geometric cell sizes from the faces (not mesh.vol(): a stale or wrong metric inside the library must not cancel out)
    vol = [mesh.xf[i + 1] - mesh.xf[i] for i in range(n)]
    neq = model.neq
    F = rhs.flux
    names = {'convection': ['q'], 'burgers': ['u'], 'shallowwater': ['height', 'discharge'],
             'euler1d': ['mass', 'momentum', 'energy']}[cfg['model']]
    tot = []
    for k in range(neq):
        s = 0
        for i in range(n):
            s = s + vol[i] * R[k][i]
        tot.append(s + (F[k][n] - F[k][0]))
    # proof: with the face fluxes CUT to variables (whatever the flux function returns) the sum telescopes - a lemma, whose models
    # (values of the cut variables) are not inputs; the statement on the real terms is searched for violations with replayable inputs
    totc = cm.cut(B, tot, [F[k] for k in range(neq)])
    for k in range(neq):
        if B.symbolic:
            B.ob('telescoping-with-the-fluxes-cut:' + names[k], 'eq', totc[k], B.const(0), replayable=False, meta={'lemma': True})
        B.ob('telescoping:' + names[k], 'eq', tot[k], B.const(0), meta={'search_only': 'telescoping-with-the-fluxes-cut', 'relative': True})
    if cfg['bc'] == 'per':
        for k in range(neq):
            B.ob('periodic-end-faces-same-flux:' + names[k], 'eq', F[k][n], F[k][0])
    elif cfg['bc'] == 'sym':
        inv = {'shallowwater': [0], 'euler1d': [0, 2]}[cfg['model']]
        for k in inv:
            B.ob('wall-flux-left:' + names[k], 'eq', F[k][0], B.const(0), method='sweep')
            B.ob('wall-flux-right:' + names[k], 'eq', F[k][n], B.const(0), method='sweep')


def _operator2d(cfg, B):
    bc = cfg['bc']
    cfg = dict(cfg, bc2d={t: bc for t in ('left', 'right', 'top', 'bottom')})
    d = cm.build2d(B, cfg)
    rhs, mesh, n, nx, ny = d['rhs'], d['mesh'], d['n'], d['nx'], d['ny']
    R = rhs.rhs(d['field'])
    vol = mesh.vol()
    F = rhs.flux
    nxf = ny * (nx + 1)
    dx, dy = mesh.dx(), mesh.dy()
    comps = [('mass', R[0], F[0]), ('xmom', R[1][0], F[1][0]), ('ymom', R[1][1], F[1][1]), ('energy', R[2], F[2])]
    left, right = mesh.index_of_bc('left'), mesh.index_of_bc('right')
    top, bottom = mesh.index_of_bc('top'), mesh.index_of_bc('bottom')
    tot = []
    for nm, Rk, Fk in comps:
        s = 0
        for i in range(n):
            s = s + vol[i] * Rk[i]
        out = 0
        for f in right:
            out = out + Fk[f] * dy
        for f in left:
            out = out - Fk[f] * dy
        for f in top:
            out = out + Fk[f] * dx
        for f in bottom:
            out = out - Fk[f] * dx
        tot.append(s + out)
    totc = cm.cut(B, tot, [F[0], F[1], F[2]])
    for (nm, _, _), t, tu in zip(comps, totc, tot):
        if B.symbolic:
            B.ob('telescoping-with-the-fluxes-cut:' + nm, 'eq', t, B.const(0), replayable=False, meta={'lemma': True})
        B.ob('telescoping:' + nm, 'eq', tu, B.const(0), meta={'search_only': 'telescoping-with-the-fluxes-cut', 'relative': True})
    if bc == 'per':
        for nm, Rk, Fk in comps:
            for a, b in zip(left, right):
                B.ob('periodic-x-same-flux:%s[%d]' % (nm, a), 'eq', Fk[a], Fk[b])
            for a, b in zip(bottom, top):
                B.ob('periodic-y-same-flux:%s[%d]' % (nm, a), 'eq', Fk[a], Fk[b])
    else:
        for nm, Rk, Fk in (comps[0], comps[3]):
            for f in list(left) + list(right) + list(top) + list(bottom):
                B.ob('wall-flux:%s[%d]' % (nm, f), 'eq', Fk[f], B.const(0), method='sweep')


def _integrator(cfg, B):
    n = cfg['n']
    integ = cfg['integrator']
    vol = B.array([B.const(v) for v in cfg['vol']]) if 'vol' in cfg else B.vararray('vol', n, positive=True)

    def fn(j, time, data):
        k = B.vararray('K%d' % j, n - 1)
        s = 0
        for i in range(n - 1):
            s = s + vol[i] * k[i]
        last = -s / vol[n - 1]
        return [B.array(list(k) + [last])]
    solver, disc, model, mesh = stubs.make(B, integ, n=n, fn=fn)
    y0 = B.vararray('y', n)
    f = B.fd.field.fdata(model, mesh, [y0], t=B.var('t0'))
    dt = B.pos('dt')
    nsteps = 2 if integ == 'gear' else 1     # gear: the second step is the BDF2 branch
    tot0 = sum((vol[i] * y0[i] for i in range(n)), B.const(0))
    for s in range(nsteps):
        solver.step(f, dt)
        tot1 = sum((vol[i] * f.data[0][i] for i in range(n)), B.const(0))
        B.ob('integral-kept:step%d' % s, 'eq', tot1, tot0)
