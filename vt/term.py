"""Hash-consed term DAG over the reals (and booleans).

Everything flowdyn computes on symbolic inputs ends up as nodes of this DAG.  Nodes are
immutable and unique per (op, args, value), so "the code computed the same thing twice"
is object identity.  Only *sound* local rewrites are applied at construction (constant
folding in exact rationals, neutral elements, argument ordering of commutative ops).

Real ops : var const add sub mul div neg sqrt abs min max sign pow log ite uf
Bool ops : bconst lt le eq and or not buf
"""
import math
from fractions import Fraction

REAL_OPS = ('var', 'const', 'add', 'sub', 'mul', 'div', 'neg', 'sqrt', 'abs', 'min', 'max',
            'sign', 'pow', 'log', 'ite', 'uf')
BOOL_OPS = ('bconst', 'lt', 'le', 'eq', 'and', 'or', 'not')


class T:
    __slots__ = ('op', 'a', 'v', 'id', 'depth', '__weakref__')
    _tab = {}
    _n = 0

    def __new__(cls, op, a=(), v=None):
        k = (op, tuple(x.id for x in a), v)
        t = T._tab.get(k)
        if t is None:
            t = object.__new__(cls)
            t.op = op
            t.a = tuple(a)
            t.v = v
            T._n += 1
            t.id = T._n
            t.depth = 1 + max([x.depth for x in a], default=0)
            T._tab[k] = t
        return t

    @property
    def isbool(self):
        return self.op in BOOL_OPS

    def __repr__(self):
        return show(self, 3)


def reset():
    """forget every term (call between independent configurations to bound memory)"""
    global ZERO, ONE, TRUE, FALSE, MONE, TWO
    T._tab.clear()
    T._n = 0
    ZERO = const(0)
    ONE = const(1)
    MONE = const(-1)
    TWO = const(2)
    TRUE = T('bconst', (), True)
    FALSE = T('bconst', (), False)


def var(n):
    return T('var', (), n)


def const(x):
    if isinstance(x, T):
        return x
    if isinstance(x, bool):
        return T('bconst', (), bool(x))
    if isinstance(x, int):
        return T('const', (), Fraction(x))
    if isinstance(x, Fraction):
        return T('const', (), x)
    # numpy scalars and python floats: the exact rational value of the double
    try:
        import numpy as _np
        if isinstance(x, _np.bool_):
            return T('bconst', (), bool(x))
        if isinstance(x, _np.integer):
            return T('const', (), Fraction(int(x)))
    except ImportError:  # pragma: no cover
        pass
    f = float(x)
    if math.isnan(f) or math.isinf(f):
        raise ValueError('non-finite constant %r cannot enter the exact-real domain' % (x,))
    return T('const', (), Fraction(f))


ZERO = ONE = MONE = TWO = TRUE = FALSE = None
reset()


def isc(t):
    return t.op == 'const'


def _isqrt_frac(q):
    if q < 0:
        return None
    n, d = q.numerator, q.denominator
    rn, rd = math.isqrt(n), math.isqrt(d)
    if rn * rn == n and rd * rd == d:
        return Fraction(rn, rd)
    return None


MODE = 'real'   # 'fp': IEEE binary64 reading of the DAG (C12) - only IEEE-sound rewrites


def set_mode(m):
    global MODE
    assert m in ('real', 'fp')
    MODE = m


def _mk_fp(op, a):
    """construction under the binary64 reading: fold constants with float arithmetic, order the
    operands of the commutative IEEE operations, nothing else"""
    if op in ('add', 'sub', 'mul', 'div') and isc(a[0]) and isc(a[1]):
        x, y = float(a[0].v), float(a[1].v)
        try:
            r = {'add': x + y, 'sub': x - y, 'mul': x * y, 'div': x / y if y != 0 else None}[op]
        except OverflowError:
            r = None
        if r is not None and not (math.isinf(r) or math.isnan(r)):
            return const(r)
    # sign symmetry of IEEE arithmetic under round-to-nearest-even (exact identities, NaN-preserving):
    #   (-x)*(-y) = x*y, (-x)*y = -(x*y), (-x)/(-y) = x/y, (-x)/y = -(x/y), (-x)+(-y) = -(x+y), |-x| = |x|, -(-x) = x
    if op in ('mul', 'div'):
        n0, n1 = a[0].op == 'neg', a[1].op == 'neg'
        if n0 and n1:
            return _mk_fp(op, [a[0].a[0], a[1].a[0]])
        if n0:
            return _mk_fp('neg', [_mk_fp(op, [a[0].a[0], a[1]])])
        if n1:
            return _mk_fp('neg', [_mk_fp(op, [a[0], a[1].a[0]])])
    if op == 'add' and a[0].op == 'neg' and a[1].op == 'neg':
        return _mk_fp('neg', [_mk_fp('add', [a[0].a[0], a[1].a[0]])])
    if op == 'abs' and a[0].op == 'neg':
        return _mk_fp('abs', [a[0].a[0]])
    if op == 'neg' and a[0].op == 'neg':
        return a[0].a[0]
    if op == 'sign' and a[0].op == 'neg':
        return _mk_fp('neg', [_mk_fp('sign', [a[0].a[0]])])
    if op in ('add', 'mul') and a[0].id > a[1].id:
        a = [a[1], a[0]]
    if op == 'neg' and isc(a[0]) and a[0].v != 0:
        return const(-a[0].v)
    if op == 'ite':
        if a[0].op == 'bconst':
            return a[1] if a[0].v else a[2]
        if a[1] is a[2]:
            return a[1]
    if op == 'not' and a[0].op == 'bconst':
        return const(not a[0].v)
    return T(op, a)


def _scaled(t):
    """t == coef * base with a rational coef (linear normalisation helper)"""
    if t.op == 'mul':
        if isc(t.a[0]):
            return t.a[0].v, t.a[1]
        if isc(t.a[1]):
            return t.a[1].v, t.a[0]
    if t.op == 'neg':
        c, b = _scaled(t.a[0])
        return -c, b
    return Fraction(1), t


def _scale(c, b):
    if c == 0:
        return ZERO
    if c == 1:
        return b
    if c == -1:
        return T('neg', (b,)) if b.op != 'neg' else b.a[0]
    k = const(c)
    return T('mul', (k, b) if k.id <= b.id else (b, k))


def mk(op, *a):
    a = [const(x) for x in a]
    if MODE == 'fp':
        return _mk_fp(op, a)
    if op in ('add', 'sub') and not (isc(a[0]) or isc(a[1])):
        # c1*b + c2*b -> (c1+c2)*b   (sound over the reals; makes uniform-mesh quantities canonical)
        c0, b0 = _scaled(a[0])
        c1, b1 = _scaled(a[1])
        if b0 is b1:
            return _scale(c0 + c1 if op == 'add' else c0 - c1, b0)
    if op == 'mul' and (isc(a[0]) != isc(a[1])):
        k, x = (a[0], a[1]) if isc(a[0]) else (a[1], a[0])
        if x.op in ('mul', 'neg'):
            c, b = _scaled(x)
            if b is not x:
                return _scale(k.v * c, b)
    if op in ('add', 'sub', 'mul', 'div', 'min', 'max') and isc(a[0]) and isc(a[1]):
        x, y = a[0].v, a[1].v
        if op == 'add':
            return const(x + y)
        if op == 'sub':
            return const(x - y)
        if op == 'mul':
            return const(x * y)
        if op == 'div' and y != 0:
            return const(x / y)
        if op == 'min':
            return const(min(x, y))
        if op == 'max':
            return const(max(x, y))
    if op == 'add':
        if a[0] is ZERO:
            return a[1]
        if a[1] is ZERO:
            return a[0]
        if a[0].id > a[1].id:
            a = [a[1], a[0]]
    elif op == 'sub':
        if a[1] is ZERO:
            return a[0]
        if a[0] is a[1]:
            return ZERO
        if a[0] is ZERO:
            return mk('neg', a[1])
    elif op == 'mul':
        if a[0] is ONE:
            return a[1]
        if a[1] is ONE:
            return a[0]
        if a[0] is ZERO or a[1] is ZERO:
            return ZERO
        if a[0] is MONE:
            return mk('neg', a[1])
        if a[1] is MONE:
            return mk('neg', a[0])
        if a[0].id > a[1].id:
            a = [a[1], a[0]]
    elif op == 'div':
        if isc(a[1]) and a[1].v == 0:
            # the traced code divides by a quantity that IS zero (not merely may be): inf/NaN in the real run, never a real number
            raise ZeroDivisionError('the traced code divides by the constant 0')
        if a[1] is ONE:
            return a[0]
        if a[1] is MONE:
            return mk('neg', a[0])
        if a[0] is ZERO and isc(a[1]) and a[1].v != 0:
            return ZERO
        if isc(a[1]) and a[1].v != 0:
            # x / c  ->  x * (1/c)   (exact in the reals)
            return mk('mul', a[0], const(1 / a[1].v))
    elif op == 'neg':
        if isc(a[0]):
            return const(-a[0].v)
        if a[0].op == 'neg':
            return a[0].a[0]
    elif op == 'abs':
        if isc(a[0]):
            return const(abs(a[0].v))
        if a[0].op == 'neg':
            return mk('abs', a[0].a[0])
        if a[0].op == 'abs':
            return a[0]
    elif op == 'sign':
        if isc(a[0]):
            return const((a[0].v > 0) - (a[0].v < 0))
    elif op in ('min', 'max'):
        if a[0] is a[1]:
            return a[0]
        if a[0].id > a[1].id:
            a = [a[1], a[0]]
    elif op == 'ite':
        if a[0].op == 'bconst':
            return a[1] if a[0].v else a[2]
        if a[1] is a[2]:
            return a[1]
    elif op in ('lt', 'le', 'eq'):
        if isc(a[0]) and isc(a[1]):
            x, y = a[0].v, a[1].v
            return const({'lt': x < y, 'le': x <= y, 'eq': x == y}[op])
        if a[0] is a[1]:
            return const(op != 'lt')
        if op == 'eq' and a[0].id > a[1].id:
            a = [a[1], a[0]]
    elif op == 'not':
        if a[0].op == 'bconst':
            return const(not a[0].v)
        if a[0].op == 'not':
            return a[0].a[0]
    elif op == 'and':
        a = [x for x in a if x is not TRUE]
        if any(x is FALSE for x in a):
            return FALSE
        if not a:
            return TRUE
        if len(a) == 1:
            return a[0]
    elif op == 'or':
        a = [x for x in a if x is not FALSE]
        if any(x is TRUE for x in a):
            return TRUE
        if not a:
            return FALSE
        if len(a) == 1:
            return a[0]
    elif op == 'sqrt':
        if isc(a[0]):
            r = _isqrt_frac(a[0].v)
            if r is not None:
                return const(r)
    elif op == 'pow':
        # pow(base, const exponent); integer and half-integer exponents never reach here
        if isc(a[0]) and a[0].v == 1:
            return ONE
    return T(op, a)


def uf(name, *args):
    """application of an uninterpreted real function"""
    return T('uf', tuple(const(x) for x in args), name)


# convenience constructors -------------------------------------------------------------
def add(*xs):
    r = ZERO
    for x in xs:
        r = mk('add', r, x)
    return r


def sub(a, b): return mk('sub', a, b)
def mul(a, b): return mk('mul', a, b)
def div(a, b): return mk('div', a, b)
def neg(a): return mk('neg', a)
def eq(a, b): return mk('eq', a, b)
def le(a, b): return mk('le', a, b)
def lt(a, b): return mk('lt', a, b)
def ge(a, b): return mk('le', b, a)
def gt(a, b): return mk('lt', b, a)
def ne(a, b): return mk('not', mk('eq', a, b))
def And(*xs): return mk('and', *xs) if xs else TRUE
def Or(*xs): return mk('or', *xs) if xs else FALSE
def Not(x): return mk('not', x)
def implies(a, b): return mk('or', mk('not', a), b)
def ite(c, a, b): return mk('ite', c, a, b)


def topo(roots):
    seen = set()
    order = []
    st = [(r, 0) for r in roots]
    while st:
        t, i = st.pop()
        if t.id in seen:
            continue
        if i == 0:
            st.append((t, 1))
            st.extend((x, 0) for x in t.a if x.id not in seen)
        else:
            seen.add(t.id)
            order.append(t)
    return order


def variables(roots):
    return sorted({t.v for t in topo(roots) if t.op == 'var'})


def size(roots):
    return len(topo(roots))


def _ufval(name, args):
    # deterministic pseudo-random smooth-ish value for simulation only (proposes, never decides)
    h = hash((name,) + tuple(round(float(x), 12) for x in args))
    return ((h % 1000003) / 1000003.0) * 2.0 + 0.25


def evalf(order, env, ufs=None):
    """float evaluation of a topologically ordered node list; returns {id: value}.
    Undefined operations give nan.  Used for simulation and for sanity checks only."""
    val = {}
    nan = float('nan')
    for t in order:
        o = t.op
        a = [val[x.id] for x in t.a]
        try:
            if o == 'var':
                v = env[t.v]
            elif o == 'const':
                v = float(t.v)
            elif o == 'bconst':
                v = t.v
            elif o == 'add':
                v = a[0] + a[1]
            elif o == 'sub':
                v = a[0] - a[1]
            elif o == 'mul':
                v = a[0] * a[1]
            elif o == 'div':
                v = a[0] / a[1]
            elif o == 'neg':
                v = -a[0]
            elif o == 'sqrt':
                v = math.sqrt(a[0])
            elif o == 'abs':
                v = abs(a[0])
            elif o == 'min':
                v = min(a[0], a[1])
            elif o == 'max':
                v = max(a[0], a[1])
            elif o == 'sign':
                v = float((a[0] > 0) - (a[0] < 0))
            elif o == 'pow':
                v = a[0] ** a[1]
                if isinstance(v, complex):
                    v = nan
            elif o == 'log':
                v = math.log(a[0])
            elif o == 'ite':
                v = a[1] if a[0] else a[2]
            elif o == 'lt':
                v = a[0] < a[1]
            elif o == 'le':
                v = a[0] <= a[1]
            elif o == 'eq':
                v = a[0] == a[1]
            elif o == 'and':
                v = all(a)
            elif o == 'or':
                v = any(a)
            elif o == 'not':
                v = not a[0]
            elif o == 'uf':
                if ufs and t.v in ufs:
                    v = ufs[t.v](*a)
                else:
                    v = _ufval(t.v, a)
            else:
                raise KeyError(o)
        except (ZeroDivisionError, ValueError, OverflowError):
            v = nan
        val[t.id] = v
    return val


def evalq(order, env):
    """exact rational evaluation where possible (no sqrt of non-squares, no pow/log/uf):
    returns {id: Fraction|bool|None}"""
    val = {}
    for t in order:
        o = t.op
        a = [val[x.id] for x in t.a]
        v = None
        try:
            if any(x is None for x in a):
                if o == 'ite' and a[0] is not None:
                    v = a[1] if a[0] else a[2]
                else:
                    v = None
            elif o == 'var':
                v = env.get(t.v)
                if v is not None and not isinstance(v, bool):
                    v = Fraction(v)
            elif o == 'const':
                v = t.v
            elif o == 'bconst':
                v = t.v
            elif o == 'add':
                v = a[0] + a[1]
            elif o == 'sub':
                v = a[0] - a[1]
            elif o == 'mul':
                v = a[0] * a[1]
            elif o == 'div':
                v = a[0] / a[1] if a[1] != 0 else None
            elif o == 'neg':
                v = -a[0]
            elif o == 'sqrt':
                v = _isqrt_frac(a[0])
            elif o == 'abs':
                v = abs(a[0])
            elif o == 'min':
                v = min(a[0], a[1])
            elif o == 'max':
                v = max(a[0], a[1])
            elif o == 'sign':
                v = Fraction((a[0] > 0) - (a[0] < 0))
            elif o == 'ite':
                v = a[1] if a[0] else a[2]
            elif o == 'lt':
                v = a[0] < a[1]
            elif o == 'le':
                v = a[0] <= a[1]
            elif o == 'eq':
                v = a[0] == a[1]
            elif o == 'and':
                v = all(a)
            elif o == 'or':
                v = any(a)
            elif o == 'not':
                v = not a[0]
        except (ZeroDivisionError, ValueError, OverflowError):
            v = None
        val[t.id] = v
    return val


def subst(roots, mp):
    """mp: id -> T ; rebuild bottom-up through mk (so rewrites re-fire)"""
    order = topo(roots)
    new = {}
    for t in order:
        if t.id in mp:
            new[t.id] = mp[t.id]
            continue
        if not t.a:
            new[t.id] = t
            continue
        na = [new[x.id] for x in t.a]
        if all(x is y for x, y in zip(na, t.a)):
            new[t.id] = t
        elif t.op == 'uf':
            new[t.id] = T('uf', tuple(na), t.v)
        else:
            new[t.id] = mk(t.op, *na)
    return [new[r.id] for r in roots]


def subst_vars(roots, env):
    """env: var name -> T"""
    mp = {t.id: const(env[t.v]) for t in topo(roots) if t.op == 'var' and t.v in env}
    return subst(roots, mp)


_INFIX = {'add': '+', 'sub': '-', 'mul': '*', 'div': '/', 'lt': '<', 'le': '<=', 'eq': '=='}


def show(t, depth=6):
    """short human-readable rendering (for evidence samples)"""
    if t.op == 'var':
        return str(t.v)
    if t.op in ('const', 'bconst'):
        return str(t.v)
    if depth <= 0:
        return '#%d' % t.id
    a = [show(x, depth - 1) for x in t.a]
    if t.op in _INFIX:
        return '(' + (' %s ' % _INFIX[t.op]).join(a) + ')'
    if t.op == 'neg':
        return '-' + a[0]
    if t.op == 'uf':
        return '%s(%s)' % (t.v, ', '.join(a))
    return '%s(%s)' % (t.op, ', '.join(a))
