"""Prover: term DAG -> z3 (QF_NRA over exact reals), validity queries, definedness, random
simulation (proposes lemmas only), SMT sweeping (solver-proved node merges), symbolic
differentiation of the traced DAG, model extraction."""
import math
import random
import time
from fractions import Fraction
import z3

from . import term as tm

STATS = {'queries': 0, 'unsat': 0, 'sat': 0, 'unknown': 0, 'solver_s': 0.0}


def stats_reset():
    for k in STATS:
        STATS[k] = 0 if k != 'solver_s' else 0.0


def stats_snapshot():
    return dict(STATS)


_POW = z3.Function('pow', z3.RealSort(), z3.RealSort(), z3.RealSort())
_LOG = z3.Function('log', z3.RealSort(), z3.RealSort())


def _check(s, timeout_ms):
    """s.check() with a watchdog: nlsat does not always honour the soft timeout, so the context is
    interrupted shortly after it (the answer is then `unknown`)"""
    import threading
    timer = threading.Timer(timeout_ms / 1000.0 + 1.0, s.ctx.interrupt)
    timer.daemon = True
    timer.start()
    try:
        try:
            return s.check()
        except z3.Z3Exception:
            return z3.unknown
    finally:
        timer.cancel()


class Z:
    """emit terms to z3; sqrt is purified: fresh s with s >= 0 and s*s = arg (side list)"""

    def __init__(self, sqrt_exact=True):
        self.sqrt_exact = sqrt_exact
        self.c = {}
        self.side = []
        self.ufs = {}
        self.sqrt_args = []
        self.pow_nodes = []
        self.log_nodes = []

    def __call__(self, t):
        c = self.c
        if t.id in c:
            return c[t.id]
        for u in tm.topo([t]):
            if u.id in c:
                continue
            a = [c[x.id] for x in u.a]
            o = u.op
            if o == 'var':
                e = z3.Real(u.v)
            elif o == 'const':
                e = z3.RealVal(str(u.v))
            elif o == 'bconst':
                e = z3.BoolVal(u.v)
            elif o == 'add':
                e = a[0] + a[1]
            elif o == 'sub':
                e = a[0] - a[1]
            elif o == 'mul':
                e = a[0] * a[1]
            elif o == 'div':
                e = a[0] / a[1]
            elif o == 'neg':
                e = -a[0]
            elif o == 'sqrt':
                e = z3.Real('sqrt!%d' % u.id)
                # abstraction level 0 keeps only s >= 0 (sound generalisation: a proof under it holds for the real sqrt)
                self.side.append(z3.And(e >= 0, e * e == a[0]) if self.sqrt_exact else (e >= 0))
                self.sqrt_args.append(u.a[0])
            elif o == 'abs':
                e = z3.If(a[0] >= 0, a[0], -a[0])
            elif o == 'min':
                e = z3.If(a[0] <= a[1], a[0], a[1])
            elif o == 'max':
                e = z3.If(a[0] >= a[1], a[0], a[1])
            elif o == 'sign':
                e = z3.If(a[0] > 0, z3.RealVal(1), z3.If(a[0] < 0, z3.RealVal(-1), z3.RealVal(0)))
            elif o == 'pow':
                e = _POW(a[0], a[1])
                self.pow_nodes.append(u)
            elif o == 'log':
                e = _LOG(a[0])
                self.log_nodes.append(u)
            elif o == 'ite':
                e = z3.If(a[0], a[1], a[2])
            elif o == 'lt':
                e = a[0] < a[1]
            elif o == 'le':
                e = a[0] <= a[1]
            elif o == 'eq':
                e = a[0] == a[1]
            elif o == 'and':
                e = z3.And(*a)
            elif o == 'or':
                e = z3.Or(*a)
            elif o == 'not':
                e = z3.Not(a[0])
            elif o == 'uf':
                key = (u.v, len(a))
                if key not in self.ufs:
                    self.ufs[key] = z3.Function('uf_' + u.v, *([z3.RealSort()] * (len(a) + 1)))
                e = self.ufs[key](*a) if a else z3.Real('uf_' + u.v)
            else:
                raise KeyError(o)
            c[u.id] = e
        return c[t.id]


def denominators(roots):
    """non-constant denominators occurring in the DAG (definedness of division)"""
    return [u.a[1] for u in tm.topo(roots) if u.op == 'div' and u.a[1].op != 'const']


def sqrt_args(roots):
    return [u.a[0] for u in tm.topo(roots) if u.op == 'sqrt' and u.a[0].op != 'const']


def definedness(roots):
    """conditions under which the float evaluation of the DAG is finite over the reals:
    every denominator non-zero, every sqrt argument >= 0, log/pow bases > 0"""
    out = []
    seen = set()
    for u in tm.topo(roots):
        c = None
        if u.op == 'div' and u.a[1].op != 'const':
            c = tm.ne(u.a[1], tm.ZERO)
        elif u.op == 'sqrt' and u.a[0].op != 'const':
            c = tm.le(tm.ZERO, u.a[0])
        elif u.op == 'log' or u.op == 'pow':
            c = tm.lt(tm.ZERO, u.a[0])
        if c is not None and c.id not in seen and c is not tm.TRUE:
            seen.add(c.id)
            out.append(c)
    return out


def pow_axioms(roots):
    """true facts of real exponentiation / logarithm, instantiated on the occurring terms"""
    ax = []
    pows = [u for u in tm.topo(roots) if u.op == 'pow']
    logs = [u for u in tm.topo(roots) if u.op == 'log']
    for u in pows:
        b, e = u.a
        pos = tm.lt(tm.ZERO, b)
        ax.append(tm.implies(pos, tm.lt(tm.ZERO, u)))
        ax.append(tm.implies(tm.eq(b, tm.ONE), tm.eq(u, tm.ONE)))
        if e.op == 'const' and e.v > 0:
            ax.append(tm.implies(tm.lt(tm.ONE, b), tm.lt(tm.ONE, u)))
            ax.append(tm.implies(tm.And(pos, tm.lt(b, tm.ONE)), tm.lt(u, tm.ONE)))
        if e.op == 'const' and e.v < 0:
            ax.append(tm.implies(tm.lt(tm.ONE, b), tm.lt(u, tm.ONE)))
            ax.append(tm.implies(tm.And(pos, tm.lt(b, tm.ONE)), tm.lt(tm.ONE, u)))
    # pow(x,a)^n = x^(a n) when a*n is an integer; pow(pow(x,a),b) = pow(x,ab)
    for u in pows:
        b, e = u.a
        if e.op == 'const':
            q = e.v
            n = q.denominator
            if n <= 12:
                lhs = tm.ONE
                for _ in range(n):
                    lhs = tm.mul(lhs, u)
                m = int(q * n)
                rhs = tm.ONE
                for _ in range(abs(m)):
                    rhs = tm.mul(rhs, b)
                if m < 0:
                    rhs = tm.div(tm.ONE, rhs)
                ax.append(tm.implies(tm.lt(tm.ZERO, b), tm.eq(lhs, rhs)))
    for u in pows:
        for w in pows:
            if u is w:
                continue
            # same base: pow(x,a)*pow(x,b) = pow(x,a+b) instances where a+b is integer
            if u.a[0] is w.a[0] and u.a[1].op == 'const' and w.a[1].op == 'const' and u.id < w.id:
                s = u.a[1].v + w.a[1].v
                if s.denominator == 1 and abs(s) <= 4:
                    rhs = tm.ONE
                    for _ in range(abs(int(s))):
                        rhs = tm.mul(rhs, u.a[0])
                    if s < 0:
                        rhs = tm.div(tm.ONE, rhs)
                    ax.append(tm.implies(tm.lt(tm.ZERO, u.a[0]), tm.eq(tm.mul(u, w), rhs)))
            # same exponent: monotone and injective in the base
            if u.a[1] is w.a[1] and u.a[1].op == 'const' and u.id < w.id:
                pos = tm.And(tm.lt(tm.ZERO, u.a[0]), tm.lt(tm.ZERO, w.a[0]))
                if u.a[1].v > 0:
                    ax.append(tm.implies(pos, tm.Or(tm.And(tm.lt(u.a[0], w.a[0]), tm.lt(u, w)),
                                                    tm.And(tm.eq(u.a[0], w.a[0]), tm.eq(u, w)),
                                                    tm.And(tm.lt(w.a[0], u.a[0]), tm.lt(w, u)))))
                elif u.a[1].v < 0:
                    ax.append(tm.implies(pos, tm.Or(tm.And(tm.lt(u.a[0], w.a[0]), tm.lt(w, u)),
                                                    tm.And(tm.eq(u.a[0], w.a[0]), tm.eq(u, w)),
                                                    tm.And(tm.lt(w.a[0], u.a[0]), tm.lt(u, w)))))
    for u in logs:
        ax.append(tm.implies(tm.eq(u.a[0], tm.ONE), tm.eq(u, tm.ZERO)))
    return ax


def model_to_env(model, names):
    env = {}
    for n in names:
        v = model.eval(z3.Real(n), model_completion=True)
        env[n] = z3val(v)
    return env


def z3val(v):
    if z3.is_rational_value(v):
        return Fraction(v.numerator_as_long(), v.denominator_as_long())
    if z3.is_algebraic_value(v):
        a = v.approx(30)
        return Fraction(a.numerator_as_long(), a.denominator_as_long())
    try:
        return Fraction(str(v))
    except Exception:
        return None


class Result:
    __slots__ = ('verdict', 'env', 'seconds', 'note')

    def __init__(self, verdict, env=None, seconds=0.0, note=''):
        self.verdict = verdict      # 'proved' | 'cex' | 'unknown'
        self.env = env
        self.seconds = seconds
        self.note = note

    def __repr__(self):
        return 'Result(%s, %.2fs%s)' % (self.verdict, self.seconds, ', ' + self.note if self.note else '')


def valid(goal, assume=(), timeout_ms=20000, defined=True, extra_side=(), axioms=True, tactic=None, sqrt_exact=True):
    """is  (/\\ assume) -> goal  valid over the reals?  (definedness of every division and
    square root occurring is *assumed* when defined=True)"""
    if goal is tm.TRUE:
        return Result('proved', note='syntactic')
    assume = [a for a in assume if a is not tm.TRUE]
    roots = [goal] + list(assume) + list(extra_side)
    A = list(assume) + list(extra_side)
    if defined:
        A += definedness(roots)
    if axioms:
        A += pow_axioms(roots + A)
    z = Z(sqrt_exact=sqrt_exact)
    g = z(goal)
    AA = [z(a) for a in A]
    s = z3.Solver() if tactic is None else z3.Tactic(tactic).solver()
    s.set('timeout', int(timeout_ms))
    for a in AA + z.side:
        s.add(a)
    s.add(z3.Not(g))
    t0 = time.time()
    r = _check(s, timeout_ms)
    dt = time.time() - t0
    STATS['queries'] += 1
    STATS['solver_s'] += dt
    STATS[str(r)] = STATS.get(str(r), 0) + 1
    if r == z3.unsat:
        return Result('proved', seconds=dt)
    if r == z3.sat:
        names = tm.variables(roots)
        return Result('cex', env=model_to_env(s.model(), names), seconds=dt)
    try:
        why = s.reason_unknown()
    except Exception:
        why = 'interrupted'
    return Result('unknown', seconds=dt, note=why)


def satisfiable(conds, timeout_ms=10000, defined=True):
    """'sat' (with env) | 'unsat' | 'unknown' for a conjunction of bool terms"""
    conds = [c for c in conds if c is not tm.TRUE]
    if any(c is tm.FALSE for c in conds):
        return 'unsat', None
    A = list(conds)
    if defined:
        A += definedness(conds)
    A += pow_axioms(A)
    z = Z()
    AA = [z(a) for a in A]
    s = z3.Solver()
    s.set('timeout', int(timeout_ms))
    for a in AA + z.side:
        s.add(a)
    t0 = time.time()
    r = _check(s, timeout_ms)
    dt = time.time() - t0
    STATS['queries'] += 1
    STATS['solver_s'] += dt
    STATS[str(r)] = STATS.get(str(r), 0) + 1
    if r == z3.sat:
        return 'sat', model_to_env(s.model(), tm.variables(conds))
    return str(r), None


def to_smt2(goal, assume=(), defined=True):
    """SMT-LIB2 text of the validity query (for cross-checking with other solvers)"""
    roots = [goal] + list(assume)
    A = list(assume)
    if defined:
        A += definedness(roots)
    A += pow_axioms(roots + A)
    z = Z()
    g = z(goal)
    s = z3.Solver()
    for a in [z(a) for a in A] + z.side:
        s.add(a)
    s.add(z3.Not(g))
    return s.to_smt2()


# ----------------------------------------------------------------------------------------
# simulation
class Sampler:
    """random assignments for the variables of a DAG.  dom: name -> (lo, hi) ; default (-2, 2).
    Names starting with a prefix registered in `pos` are sampled in (0.2, 3)."""

    def __init__(self, dom=None, seed=0, default=(-2.0, 2.0)):
        self.dom = dict(dom or {})
        self.rnd = random.Random(seed)
        self.default = default

    def __call__(self, names):
        env = {}
        for n in names:
            lo, hi = self.dom.get(n, self.default)
            env[n] = self.rnd.uniform(lo, hi)
        return env


def witness(assume, sampler, tries=400, roots=()):
    """a concrete float assignment satisfying the assumptions with every operation defined
    (reachability / non-vacuity witness); None if sampling does not find one"""
    allr = list(assume) + list(roots)
    order = tm.topo(allr)
    names = [t.v for t in order if t.op == 'var']
    for _ in range(tries):
        env = sampler(names)
        val = tm.evalf(order, env)
        if all(val[a.id] is True for a in assume) and not any(
                isinstance(val[t.id], float) and (math.isnan(val[t.id]) or math.isinf(val[t.id])) for t in order):
            return env
    return None


def _solve_exact(Mq, bq):
    n = len(bq)
    A = [list(Mq[i]) + [bq[i]] for i in range(n)]
    for c in range(n):
        piv = next((r for r in range(c, n) if A[r][c] != 0), None)
        if piv is None:
            return None
        A[c], A[piv] = A[piv], A[c]
        for r in range(n):
            if r != c and A[r][c] != 0:
                f = A[r][c] / A[c][c]
                A[r] = [x - f * y for x, y in zip(A[r], A[c])]
    return [A[i][n] / A[i][i] for i in range(n)]


def guided_cex(goal, assume, sampler, tries=120, timeout_ms=3000, defined=True, linsolves=None):
    """Simulation-guided model search: random dyadic points *propose* a falsifying assignment
    (float evaluation); the proposal is then *decided* by z3 on the exact terms with every input
    pinned to the proposed rational value.  Returns an env or None.  (z3's nlsat is weak at
    finding models of large non-linear terms on its own; pinned, the query is an exact evaluation.)"""
    assume = [a for a in assume if a is not tm.TRUE]
    roots = [goal] + assume
    order = tm.topo(roots)
    names = [t.v for t in order if t.op == 'var']
    if not names or any(t.op == 'uf' for t in order):
        return None, None
    tested = 0
    fallback = None
    linsolves = linsolves or []
    linnames = {L_.t.v for (_, _, xs) in linsolves for L_ in xs.flat}
    free = [n for n in names if n not in linnames]
    for _ in range(tries):
        env = sampler(free)
        env = {k: round(v * 64) / 64.0 for k, v in env.items()}
        if linsolves:
            # the values numpy.linalg.solve would return at this point: solved exactly, in creation order
            qenv = {k: Fraction(v) for k, v in env.items()}
            ok = True
            for (M, b, xs) in linsolves:
                ts = [e.t if hasattr(e, 't') else tm.const(e) for e in list(M.flat) + list(b.flat)]
                vq = tm.evalq(tm.topo(ts), qenv)
                vals = [vq[t.id] for t in ts]
                if any(v is None for v in vals):
                    ok = False
                    break
                n = len(b)
                sol = _solve_exact([vals[i * n:(i + 1) * n] for i in range(n)], vals[n * n:])
                if sol is None:
                    ok = False
                    break
                for xv, sv in zip(xs.flat, sol):
                    qenv[xv.t.v] = sv
            if not ok:
                continue
            env = {k: float(v) for k, v in qenv.items() if k in names}
            exact_env = {k: v for k, v in qenv.items() if k in names}
            val = tm.evalq(order, exact_env)       # exact: the linear-system equalities must hold exactly
            if any(val[a.id] is None for a in assume) or val[goal.id] is None:
                continue
        else:
            val = tm.evalf(order, env)
        if not all(val[a.id] is True for a in assume):
            continue
        if val[goal.id] is not False:
            continue
        if any(isinstance(val[t.id], float) and (math.isnan(val[t.id]) or math.isinf(val[t.id])) for t in order):
            continue
        # margin: skip proposals that are within round-off of satisfying the goal
        if goal.op in ('eq', 'le', 'lt') and val[goal.a[0].id] is not None and val[goal.a[1].id] is not None:
            a, b = val[goal.a[0].id], val[goal.a[1].id]
            if abs(a - b) <= 1e-7 * max(1.0, abs(a), abs(b)):
                continue
        tested += 1
        if tested > 2:
            break
        pins = [tm.eq(tm.var(k), tm.const(exact_env[k] if linsolves else Fraction(v))) for k, v in env.items()]
        r = valid(goal, assume + pins, timeout_ms, defined=defined)
        if r.verdict == 'cex':
            return r.env, 'z3-pinned'
        if r.verdict == 'unknown' and fallback is None:
            # exact evaluation with nested algebraic numbers did not finish: keep the proposal; it is
            # only ever reported after the replay on the real build reproduces it
            fallback = dict(exact_env) if linsolves else {k: Fraction(v) for k, v in env.items()}
    if fallback is not None:
        return fallback, 'float-proposal'
    return None, None


# ----------------------------------------------------------------------------------------
# symbolic differentiation of a traced DAG (exact derivative of what the code computes)
def diff(roots, name):
    """d root / d var(name) for each root (real terms); ite/min/max/abs differentiate branchwise"""
    order = tm.topo(roots)
    d = {}
    Z0, O1 = tm.ZERO, tm.ONE
    for t in order:
        o = t.op
        a = t.a
        if o == 'var':
            r = O1 if t.v == name else Z0
        elif o in ('const',):
            r = Z0
        elif o in tm.BOOL_OPS:
            r = None
        elif o == 'add':
            r = tm.add(d[a[0].id], d[a[1].id])
        elif o == 'sub':
            r = tm.sub(d[a[0].id], d[a[1].id])
        elif o == 'mul':
            r = tm.add(tm.mul(d[a[0].id], a[1]), tm.mul(a[0], d[a[1].id]))
        elif o == 'div':
            r = tm.div(tm.sub(tm.mul(d[a[0].id], a[1]), tm.mul(a[0], d[a[1].id])), tm.mul(a[1], a[1]))
        elif o == 'neg':
            r = tm.neg(d[a[0].id])
        elif o == 'sqrt':
            r = Z0 if d[a[0].id] is Z0 else tm.div(d[a[0].id], tm.mul(tm.TWO, t))
        elif o == 'abs':
            r = Z0 if d[a[0].id] is Z0 else tm.mul(tm.mk('sign', a[0]), d[a[0].id])
        elif o == 'min':
            r = tm.ite(tm.le(a[0], a[1]), d[a[0].id], d[a[1].id])
        elif o == 'max':
            r = tm.ite(tm.le(a[1], a[0]), d[a[0].id], d[a[1].id])
        elif o == 'sign':
            r = Z0
        elif o == 'ite':
            r = tm.ite(a[0], d[a[1].id], d[a[2].id])
        elif o == 'pow':
            # d/dx b^e (e constant) = e * b^(e-1) * b'
            if a[1].op != 'const':
                raise NotImplementedError('derivative of pow with symbolic exponent')
            r = Z0 if d[a[0].id] is Z0 else tm.mul(tm.mul(a[1], tm.div(t, a[0])), d[a[0].id])
        elif o == 'log':
            r = Z0 if d[a[0].id] is Z0 else tm.div(d[a[0].id], a[0])
        elif o == 'uf':
            if all(d[x.id] is Z0 for x in a):
                r = Z0
            else:
                raise NotImplementedError('derivative through uninterpreted function')
        else:
            raise KeyError(o)
        d[t.id] = r
    return [d[r.id] for r in roots]


# ----------------------------------------------------------------------------------------
# SMT sweeping
_BOOLISH = ('lt', 'le', 'eq', 'and', 'or', 'not', 'bconst')


def _abstract_shared(x, y, k):
    """replace sub-DAGs shared by x and y, at depth > k below the roots, by fresh variables
    (a sound generalisation: proving the abstracted equality proves the original)"""
    ix = {u.id for u in tm.topo([x])}
    iy = {u.id for u in tm.topo([y])}
    sh = ix & iy
    memo = {}

    def rec(t, d):
        key = (t.id, min(d, k + 1))
        if key in memo:
            return memo[key]
        if d > k and t.id in sh and t.op not in ('var', 'const') and t.op not in _BOOLISH:
            r = tm.var('abs!%d' % t.id)
        elif not t.a:
            r = t
        else:
            na = [rec(u, d + 1) for u in t.a]
            if all(p is q for p, q in zip(na, t.a)):
                r = t
            elif t.op == 'uf':
                r = tm.T('uf', tuple(na), t.v)
            else:
                r = tm.mk(t.op, *na)
        memo[key] = r
        return r
    import sys
    sys.setrecursionlimit(max(sys.getrecursionlimit(), 100000))
    return rec(x, 0), rec(y, 0)


def sweep(roots, assume, sampler, nsamp=24, timeout_ms=3000, rounds=4, verbose=False, hints=(), budget_s=None,
          ladder=(0, 1, 2, 3, 4, 6), max_depth=None, protect=(), scales=()):
    """Merge solver-proved equal (or opposite) internal nodes bottom-up and resolve conditions
    that are provably constant under the assumptions.  Random simulation only *proposes*
    candidates; each merge is justified by an `unsat` answer.  Returns (new_roots, log)."""
    roots = list(roots)
    assume0 = [a for a in assume if a is not tm.TRUE]
    log = {'candidates': 0, 'merged': 0, 'rounds': 0}
    t_start = time.time()
    hints = list(hints)
    protect = list(protect)      # bool terms kept as they are (their sub-terms are merged, they are never resolved to a constant)
    for rnd in range(rounds):
        log['rounds'] += 1
        allroots = roots + assume0 + hints + protect
        prot_ids = {t.id for t in protect}
        order = tm.topo(allroots)
        names = [t.v for t in order if t.op == 'var']
        envs = []
        tries = 0
        while len(envs) < nsamp and tries < nsamp * 200:
            tries += 1
            env = sampler(names)
            val = tm.evalf(order, env)
            if all(val[a.id] is True for a in assume0):
                envs.append(val)
        if len(envs) < 4:
            log['note'] = 'sampler found too few points satisfying the assumptions'
            log['swept_hints'] = hints
            log['swept_protect'] = protect
            return roots, log
        ns = len(envs)
        classes = {}
        cands = []
        for t in order:
            vs = [envs[k][t.id] for k in range(ns)]
            if t.op in _BOOLISH:
                if t.op == 'bconst' or t.id in prot_ids:
                    continue
                if all(v is True for v in vs):
                    cands.append((t.depth, t.id, t, tm.TRUE, 0))
                elif all(v is False for v in vs):
                    cands.append((t.depth, t.id, t, tm.FALSE, 0))
                continue
            if any((not isinstance(v, (int, float))) or math.isnan(v) or math.isinf(v) for v in vs):
                continue
            k = tuple(float('%.8e' % v) for v in vs)
            kn = tuple(float('%.8e' % (-v)) for v in vs)
            if all(x == 0 for x in k):
                kn = k
            if k in classes:
                classes[k].append((t, 1))
            elif kn in classes:
                classes[kn].append((t, -1))
            else:
                classes[k] = [(t, 1)]
        for k, lst in classes.items():
            if len(lst) > 1:
                lst.sort(key=lambda p: (p[0].depth, p[0].id))
                rep, sg0 = lst[0]
                for t, sg in lst[1:]:
                    cands.append((t.depth, t.id, t, rep, sg * sg0))
        if scales:
            # proportional nodes: t = m * r with m a monomial in the given scale terms (units clauses)
            import itertools
            svals = [[envs[k][sc.id] for k in range(ns)] for sc in scales]
            monos = []
            for ex in itertools.product(range(-2, 4), repeat=len(scales)):
                if all(e == 0 for e in ex):
                    continue
                vals = [1.0] * ns
                for sv, e in zip(svals, ex):
                    vals = [v * (x ** e) for v, x in zip(vals, sv)]
                monos.append((ex, vals))
            single = {k: min(lst, key=lambda p: (p[0].depth, p[0].id)) for k, lst in classes.items()}
            for k, lst in list(classes.items()):
                if len(lst) != 1 or all(x == 0 for x in k):
                    continue
                t = lst[0][0]
                if t.op in ('var', 'const') or t.depth < 2:
                    continue
                vs = [envs[j][t.id] for j in range(ns)]
                for ex, mv in monos:
                    try:
                        kk = tuple(float('%.8e' % (v / m)) for v, m in zip(vs, mv))
                    except ZeroDivisionError:
                        continue
                    hit = single.get(kk)
                    if hit is not None and hit[0] is not t and (hit[0].depth, hit[0].id) < (t.depth, t.id):
                        mt = tm.ONE
                        for sc, e in zip(scales, ex):
                            for _ in range(abs(e)):
                                mt = tm.mul(mt, sc) if e > 0 else tm.div(mt, sc)
                        cands.append((t.depth, t.id, t, tm.mul(mt, hit[0]), hit[1]))
                        break
        cands.sort(key=lambda c: (c[0], c[1]))
        cands.sort(key=lambda c: (c[0], c[1]))
        if max_depth is not None:
            cands = [c for c in cands if c[0] <= max_depth]
        mp = {}
        changed = False
        for d, _, t, rep, sg in cands:
            if budget_s is not None and time.time() - t_start > budget_s:
                log['note'] = 'sweep budget reached'
                break
            t2, rep2 = tm.subst([t, rep], mp)
            if sg == 0:
                tgt = rep2
            else:
                tgt = rep2 if sg > 0 else tm.mk('neg', rep2)
            if t2 is tgt or t2.op in ('var', 'const', 'bconst'):
                continue
            log['candidates'] += 1
            r = None
            if sg != 0:
                for kk in ladder:
                    X, Y = _abstract_shared(t2, tgt, kk)
                    if X is Y:
                        r = 'proved'
                        break
                    r = valid(tm.eq(X, Y), assume0, timeout_ms).verdict
                    if r == 'proved':
                        break
                    if r == 'cex' and X is t2 and Y is tgt:
                        break
                if r != 'proved':
                    r = valid(tm.eq(t2, tgt), assume0, timeout_ms).verdict
            else:
                goal = t2 if rep.v else tm.Not(t2)
                r = valid(goal, assume0, timeout_ms).verdict
            if verbose:
                print('  cand %s %s %s -> %s' % (tm.show(t, 2), '=' if sg >= 0 else '=-', tm.show(rep, 2), r), flush=True)
            if r == 'proved':
                mp[t.id] = tgt
                mp[t2.id] = tgt
                changed = True
                log['merged'] += 1
        roots = tm.subst(roots, mp)
        hints = tm.subst(hints, mp)
        protect = tm.subst(protect, mp)
        if not changed:
            break
    log['swept_hints'] = hints
    log['swept_protect'] = protect
    return roots, log


# ----------------------------------------------------------------------------------------
# term-level case split (ite-free leaves)
def ite_conditions(roots):
    """distinct condition terms of the ite nodes in the DAG, shallowest first"""
    seen = {}
    for u in tm.topo(roots):
        if u.op == 'ite' and u.a[0].op != 'bconst':
            seen.setdefault(u.a[0].id, u.a[0])
    return sorted(seen.values(), key=lambda t: (t.depth, t.id))


def expand_minmax(roots):
    """min/max/abs/sign -> ite, so that the case split can remove them"""
    order = tm.topo(roots)
    new = {}
    for t in order:
        na = [new[x.id] for x in t.a]
        if t.op == 'min':
            r = tm.ite(tm.le(na[0], na[1]), na[0], na[1])
        elif t.op == 'max':
            r = tm.ite(tm.le(na[1], na[0]), na[0], na[1])
        elif t.op == 'abs':
            r = tm.ite(tm.le(tm.ZERO, na[0]), na[0], tm.neg(na[0]))
        elif t.op == 'sign':
            r = tm.ite(tm.lt(tm.ZERO, na[0]), tm.ONE, tm.ite(tm.lt(na[0], tm.ZERO), tm.MONE, tm.ZERO))
        elif not t.a:
            r = t
        elif all(x is y for x, y in zip(na, t.a)):
            r = t
        elif t.op == 'uf':
            r = tm.T('uf', tuple(na), t.v)
        else:
            r = tm.mk(t.op, *na)
        new[t.id] = r
    return [new[r.id] for r in roots]


def split_prove(goal, assume, timeout_ms=20000, max_leaves=256, feas_ms=2000, expand=False, deadline=None, stats=None):
    """prove goal by splitting on the conditions of its ite nodes; every leaf is an ite-free query.
    Returns Result; 'cex' carries the model of the first falsifiable leaf."""
    if stats is None:
        stats = {'leaves': 0, 'pruned': 0, 'unknown_leaves': 0}
    if expand:
        goal = expand_minmax([goal])[0]
    assume = [a for a in assume if a is not tm.TRUE]
    work = [(goal, [])]
    unknown = None
    while work:
        if deadline is not None and time.time() > deadline:
            return Result('unknown', note='split: deadline (%d leaves done)' % stats['leaves'])
        g, extra = work.pop()
        if g is tm.TRUE:
            stats['leaves'] += 1
            continue
        conds = ite_conditions([g])
        if not conds:
            stats['leaves'] += 1
            if stats['leaves'] > max_leaves:
                return Result('unknown', note='split: more than %d leaves' % max_leaves)
            r = valid(g, assume + extra, timeout_ms)
            if r.verdict == 'cex':
                r.note = 'split leaf'
                return r
            if r.verdict == 'unknown':
                stats['unknown_leaves'] += 1
                unknown = r
            continue
        c = conds[0]
        for val in (True, False):
            lit = c if val else tm.Not(c)
            st, _ = satisfiable(assume + extra + [lit], feas_ms)
            if st == 'unsat':
                stats['pruned'] += 1
                continue
            g2 = tm.subst([g], {c.id: tm.TRUE if val else tm.FALSE})[0]
            work.append((g2, extra + [lit]))
    if unknown is not None:
        return Result('unknown', note='split: %d leaf(s) unknown (%s)' % (stats['unknown_leaves'], unknown.note))
    return Result('proved', note='split: %d leaves, %d pruned' % (stats['leaves'], stats['pruned']))
