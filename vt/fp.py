"""IEEE binary64 reading of a term DAG (QF_FP, round-to-nearest-even): used for C12.
The DAG must have been built under term.set_mode('fp') (only IEEE-sound rewrites)."""
import math
import time
import random
from fractions import Fraction
import z3

from . import term as tm
from . import prove

F64 = z3.Float64()
RNE = z3.RNE()


def fpval(q):
    return z3.FPVal(float(q), F64)


class ZFP:
    def __init__(self):
        self.c = {}

    def __call__(self, t):
        c = self.c
        for u in tm.topo([t]):
            if u.id in c:
                continue
            a = [c[x.id] for x in u.a]
            o = u.op
            if o == 'var':
                e = z3.FP(u.v, F64)
            elif o == 'const':
                e = fpval(u.v)
            elif o == 'bconst':
                e = z3.BoolVal(u.v)
            elif o == 'add':
                e = z3.fpAdd(RNE, a[0], a[1])
            elif o == 'sub':
                e = z3.fpSub(RNE, a[0], a[1])
            elif o == 'mul':
                e = z3.fpMul(RNE, a[0], a[1])
            elif o == 'div':
                e = z3.fpDiv(RNE, a[0], a[1])
            elif o == 'neg':
                e = z3.fpNeg(a[0])
            elif o == 'abs':
                e = z3.fpAbs(a[0])
            elif o == 'sqrt':
                e = z3.fpSqrt(RNE, a[0])
            elif o == 'min':
                # numpy.minimum on non-NaN values (the sign of a zero result is irrelevant for every clause asserted)
                e = z3.If(z3.fpLEQ(a[0], a[1]), a[0], a[1])
            elif o == 'max':
                e = z3.If(z3.fpGEQ(a[0], a[1]), a[0], a[1])
            elif o == 'sign':
                e = z3.If(z3.fpGT(a[0], fpval(0)), fpval(1), z3.If(z3.fpLT(a[0], fpval(0)), fpval(-1), a[0]))
            elif o == 'ite':
                e = z3.If(a[0], a[1], a[2])
            elif o == 'lt':
                e = z3.fpLT(a[0], a[1])
            elif o == 'le':
                e = z3.fpLEQ(a[0], a[1])
            elif o == 'eq':
                e = z3.fpEQ(a[0], a[1])
            elif o == 'and':
                e = z3.And(*a)
            elif o == 'or':
                e = z3.Or(*a)
            elif o == 'not':
                e = z3.Not(a[0])
            else:
                raise KeyError('op %s has no binary64 reading here' % o)
            c[u.id] = e
        return c[t.id]


def _fpmodel(model, names):
    env = {}
    for n in names:
        v = model.eval(z3.FP(n, F64), model_completion=True)
        try:
            if z3.is_fp_value(v) if hasattr(z3, 'is_fp_value') else True:
                if v.isNaN():
                    env[n] = float('nan')
                elif v.isInf():
                    env[n] = float('-inf') if v.isNegative() else float('inf')
                else:
                    # exact value through z3's own conversion to a rational
                    if v.isZero():
                        env[n] = -0.0 if v.isNegative() else 0.0
                    else:
                        q = z3.simplify(z3.fpToReal(v))
                        env[n] = float(Fraction(q.numerator_as_long(), q.denominator_as_long()))
        except Exception:
            env[n] = float(eval(str(v).replace('*(2**', '*(2.0**'))) if False else None
    return env


def valid_fp(goal, assume=(), timeout_ms=60000):
    if goal is tm.TRUE:
        return prove.Result('proved', note='syntactic')
    z = ZFP()
    g = z(goal)
    A = [z(a) for a in assume if a is not tm.TRUE]
    s = z3.SolverFor('QF_FP')
    s.set('timeout', int(timeout_ms))
    for a in A:
        s.add(a)
    s.add(z3.Not(g))
    t0 = time.time()
    r = prove._check(s, timeout_ms)
    dt = time.time() - t0
    prove.STATS['queries'] += 1
    prove.STATS['solver_s'] += dt
    prove.STATS[str(r)] = prove.STATS.get(str(r), 0) + 1
    if r == z3.unsat:
        return prove.Result('proved', seconds=dt)
    if r == z3.sat:
        names = tm.variables([goal] + list(assume))
        env = _fpmodel(s.model(), names)
        if any(v is None for v in env.values()):
            return prove.Result('unknown', seconds=dt, note='could not read the FP model')
        return prove.Result('cex', env=env, seconds=dt)
    return prove.Result('unknown', seconds=dt, note='timeout')


class FPSampler:
    """log-uniform magnitudes over the window, random signs, exact zeros and equal/opposite pairs now and then"""

    def __init__(self, lo=1e-150, hi=1e150, seed=0):
        self.rnd = random.Random(seed)
        self.lo, self.hi = math.log10(lo), math.log10(hi)

    def one(self):
        r = self.rnd.random()
        if r < 0.08:
            return 0.0
        m = 10 ** self.rnd.uniform(self.lo, self.hi)
        if r < 0.3:
            m = 10 ** self.rnd.uniform(self.hi - 60, self.hi)      # near the top of the window
        elif r < 0.45:
            m = 10 ** self.rnd.uniform(self.lo, self.lo + 60)
        return m if self.rnd.random() < 0.5 else -m

    def __call__(self, names):
        env = {n: self.one() for n in names}
        ns = list(names)
        if len(ns) >= 2 and self.rnd.random() < 0.25:
            k = self.rnd.choice([1.0, -1.0, 2.0, 0.5, 1.0 + 2 ** -50])
            env[ns[1]] = env[ns[0]] * k
        return env


def guided_cex_fp(goal, assume, seed=0, tries=4000, lo=1e-150, hi=1e150):
    """float evaluation IS the binary64 semantics: a sampled falsifying point is then confirmed by z3 (pinned)"""
    assume = [a for a in assume if a is not tm.TRUE]
    order = tm.topo([goal] + assume)
    names = [t.v for t in order if t.op == 'var']
    smp = FPSampler(lo, hi, seed)
    for _ in range(tries):
        env = smp(names)
        val = tm.evalf(order, env)
        if not all(val[a.id] is True for a in assume):
            continue
        if val[goal.id] is False:
            pins = [tm.eq(tm.var(k), tm.const(Fraction(v))) for k, v in env.items()]
            r = valid_fp(goal, assume + pins, 20000)
            if r.verdict == 'cex':
                return r.env
    return None
