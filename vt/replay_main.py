"""concrete replay of one counterexample on the real build (run with /venv/bin/python)"""
import json
import os
import sys

sys.path.insert(0, os.path.dirname(os.path.dirname(os.path.abspath(__file__))))
os.environ.setdefault('MPLBACKEND', 'Agg')


def main():
    case = json.load(open(sys.argv[1]))
    from vt import core
    r = core.replay_case(case)
    print('REPLAY ' + json.dumps(r, default=str))
    return 0 if r.get('status') in ('reproduced', 'reproduced-other') else 2


if __name__ == '__main__':
    sys.exit(main())
