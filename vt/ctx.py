"""Per-run context: side constraints introduced by the numpy model (linalg.solve, cos/sin),
fresh-variable counter (deterministic per run, so that re-executions under a decision
prefix rebuild identical terms), path condition, and the list of modelling notes that end
up in the evidence file."""
from . import term as tm


class Context:
    def __init__(self):
        self.side = []        # bool terms that hold by construction of a model value
        self.notes = []       # human readable: which models were used
        self.nfresh = 0
        self.path = []        # [(cond term, decision bool)]
        self.memo = {}        # per-run memo (e.g. angle -> (cos, sin))
        self.fork_where = False

    def fresh(self, pfx):
        self.nfresh += 1
        return tm.var('%s!%d' % (pfx, self.nfresh))

    def note(self, s):
        if s not in self.notes:
            self.notes.append(s)

    def pathcond(self):
        return [c if d else tm.Not(c) for c, d in self.path]


CUR = [Context()]


def cur():
    return CUR[0]


def new():
    CUR[0] = Context()
    return CUR[0]
